/- `Err(Send)` means the actor is gone: an operation is answered with a send error only after the actor's task has
   finished (its receivers are dropped in the step that logs `joined`).  A running actor never refuses a message -
   whatever the fill level of its mailbox and whatever else is pending.  Model-level statement behind the trace
   monitor `C09.failOnlyWhenClosed`. -/
import Rsactor.Inv.Rej

namespace Rsactor.Model
open Rsactor.Monitor

def hasJoined (ev : List Ev) : Prop := ∃ o, Ev.joined o ∈ ev

def SendInv (s : Sys) : Prop :=
  (s.rxOpen = false → hasJoined s.ev) ∧ (∀ oid a, Ev.ret oid .send a ∈ s.ev → hasJoined s.ev)

def noSend : Ev → Bool
  | .ret _ .send _ => false
  | _ => true

theorem hasJoined_append {ev : List Ev} (chunk : List Ev) (h : hasJoined ev) : hasJoined (ev ++ chunk) := by
  obtain ⟨o, ho⟩ := h; exact ⟨o, List.mem_append_left _ ho⟩

theorem SendInv_neutral (s s' : Sys) (chunk : List Ev) (h : SendInv s)
    (hev : s'.ev = s.ev ++ chunk) (hn : chunk.all noSend = true) (hx : s'.rxOpen = s.rxOpen) : SendInv s' := by
  refine ⟨?_, ?_⟩
  · intro hc; rw [hx] at hc; rw [hev]; exact hasJoined_append _ (h.1 hc)
  · intro oid a hm
    rw [hev] at hm ⊢
    rcases List.mem_append.mp hm with hm | hm
    · exact hasJoined_append _ (h.2 oid a hm)
    · have := List.all_eq_true.mp hn _ hm
      simp [noSend] at this

theorem SendInv_of_eq {s s' : Sys} (h : SendInv s) (hev : s'.ev = s.ev) (hx : s'.rxOpen = s.rxOpen) : SendInv s' :=
  SendInv_neutral s s' [] h (by simp [hev]) rfl hx

theorem SendInv_neutral2 (s s' : Sys) (c1 c2 : List Ev) (h : SendInv s)
    (hev : s'.ev = (s.ev ++ c1) ++ c2) (h1 : c1.all noSend = true) (h2 : c2.all noSend = true)
    (hx : s'.rxOpen = s.rxOpen) : SendInv s' :=
  SendInv_neutral s s' (c1 ++ c2) h (by rw [hev, List.append_assoc]) (by simp [List.all_append, h1, h2]) hx

/-- the actor's task ends: the receivers go and `joined` is logged in the same step -/
theorem SendInv_finish (s : Sys) (o : Outcome) (evs : List Ev) (h : SendInv s) (hn : evs.all noSend = true) :
    SendInv (s.finish o evs) := by
  have hj : hasJoined (s.finish o evs).ev := ⟨o, by simp⟩
  refine ⟨fun _ => hj, fun _ _ _ => hj⟩

theorem SendInv_complete (s : Sys) (oid : Nat) (r : Res) (why : Option Reason) (h : SendInv s) (hr : r ≠ .send) :
    SendInv (s.complete oid r why) := by
  cases why with
  | none =>
    exact SendInv_neutral s _ [Ev.ret oid r s.clock] h (by simp) (by cases r <;> simp_all [noSend]) rfl
  | some w =>
    exact SendInv_neutral s _ [Ev.dead oid w, Ev.ret oid r s.clock] h (by simp) (by cases r <;> simp_all [noSend]) rfl

/-- a send fails on a closed mailbox -/
theorem SendInv_failSend (s : Sys) (oid : Nat) (it : Item) (h : SendInv s) (hc : s.rxOpen = false) :
    SendInv (s.failSend oid it) := by
  have hj := h.1 hc
  cases it with
  | env m k =>
    simp only [Sys.failSend]
    refine ⟨fun _ => ?_, fun _ _ _ => ?_⟩ <;>
      (simp only [complete_ev]; exact hasJoined_append _ (hasJoined_append _ hj))
  | stop x => simp only [Sys.failSend]; exact SendInv_complete _ _ _ _ h nofun

theorem SendInv_afterPush (s : Sys) (it : Item) (h : SendInv s) : SendInv (s.afterPush it) := by
  cases it with
  | env m kind =>
    cases kind with
    | tell =>
      simp only [Sys.afterPush]
      refine SendInv_complete _ _ _ _ ?_ nofun
      exact SendInv_neutral s _ [Ev.accepted m s.accepted.length] h (by simp [Item.oid]) rfl rfl
    | ask =>
      simp only [Sys.afterPush]
      exact SendInv_neutral s _ [Ev.accepted m s.accepted.length] h (by simp [Item.oid]) rfl rfl
  | stop x =>
    simp only [Sys.afterPush]
    refine SendInv_complete _ _ _ _ ?_ nofun
    exact SendInv_neutral s _ [Ev.accepted x s.accepted.length] h (by simp [Item.oid]) rfl rfl

theorem SendInv_afterStrand (s : Sys) (it : Item) (h : SendInv s) : SendInv (s.afterStrand it) := by
  cases it with
  | env m kind =>
    cases kind with
    | tell =>
      simp only [Sys.afterStrand]
      exact SendInv_complete _ _ _ _ (SendInv_of_eq h rfl rfl) nofun
    | ask => simp only [Sys.afterStrand]; exact SendInv_of_eq h rfl rfl
  | stop x =>
    simp only [Sys.afterStrand]
    exact SendInv_complete _ _ _ _ (SendInv_of_eq h rfl rfl) nofun

theorem SendInv_init (cap : Nat) (sc : Script) : SendInv (init cap sc) := by
  refine ⟨fun h => ?_, fun o a h => ?_⟩ <;> simp [init] at h

theorem SendInv_step (s s' : Sys) (l : Label) (h : SendInv s) (hs : step? s l = some s') : SendInv s' := by
  cases l with
  | issue hd op =>
    simp only [step?, Sys.issue] at hs
    have hb : SendInv (issueBase s op) :=
      SendInv_neutral s _ [.issued s.nextOid op.kind op.timeout s.clock] h rfl rfl rfl
    split at hs
    · split at hs
      · cases hs
        split
        · exact SendInv_complete _ _ _ _ (SendInv_of_eq hb rfl rfl) nofun
        · exact SendInv_complete _ _ _ _ hb nofun
      · split at hs
        · rename_i hc
          cases hs
          exact SendInv_failSend _ _ _ hb (by simpa [issueBase] using hc)
        · split at hs <;> cases hs <;> exact SendInv_of_eq hb rfl rfl
    · cases hs
  | grantWake oid =>
    simp only [step?] at hs
    split at hs
    · split at hs
      · rename_i hc
        cases hs
        exact SendInv_failSend _ _ _ (SendInv_of_eq h rfl rfl) (by simpa using hc)
      · split at hs
        · cases hs; exact SendInv_of_eq h rfl rfl
        · cases hs
    · cases hs
  | push oid =>
    simp only [step?] at hs
    split at hs
    · split at hs <;> cases hs
      · exact SendInv_afterPush _ _ (SendInv_of_eq h rfl rfl)
      · exact SendInv_afterStrand _ _ (SendInv_of_eq h rfl rfl)
    · cases hs
  | timeoutFire oid =>
    simp only [step?] at hs
    (repeat' split at hs) <;> (try cases hs)
    all_goals first
      | exact SendInv_complete _ _ _ _ (SendInv_of_eq h rfl rfl) nofun
      | exact SendInv_complete _ _ _ _ h nofun
  | recvReply oid =>
    simp only [step?] at hs
    (repeat' split at hs) <;> (try cases hs)
    all_goals exact SendInv_complete _ _ _ _ h nofun
  | pollMail =>
    simp only [step?] at hs
    (repeat' split at hs) <;> (try cases hs)
    all_goals first
      | exact SendInv_of_eq h rfl rfl
      | exact SendInv_neutral s _ _ h rfl rfl rfl
  | _ =>
    simp only [step?, Sys.runStep] at hs
    (repeat' split at hs) <;> (try cases hs)
    all_goals first
      | exact h
      | exact SendInv_of_eq h rfl rfl
      | exact SendInv_neutral s _ _ h rfl rfl rfl
      | exact SendInv_neutral2 s _ _ _ h rfl rfl rfl rfl
      | exact SendInv_finish _ _ _ h rfl
      | exact SendInv_finish _ _ _ (SendInv_of_eq h rfl rfl) rfl
      | exact SendInv_finish _ _ _ (SendInv_neutral s _ _ h rfl rfl rfl) rfl

/-- in every reachable state -/
theorem send_run (cap : Nat) (sc : Script) (ls : List Label) (s : Sys)
    (hr : run? (init cap sc) ls = some s) : SendInv s :=
  run_inv (P := SendInv) (fun s s' l h hs => SendInv_step s s' l h hs) (init cap sc) s ls (SendInv_init cap sc) hr

end Rsactor.Model
