/- C08: on_run is polled only with an empty mailbox; Ok(false) disables it for good; Err goes to on_stop. -/
import Rsactor.Inv.Fifo
import Rsactor.Inv.End

namespace Rsactor.Model
open Rsactor.Monitor

def r8Run (m : C08.R8) (chunk : List Ev) : C08.R8 := chunk.foldl C08.r8Step m

theorem r8_append (ev chunk : List Ev) : C08.r8 (ev ++ chunk) = r8Run (C08.r8 ev) chunk := by
  simp [C08.r8, r8Run, List.foldl_append]

structure RunInv (s : Sys) : Prop where
  ok : (C08.r8 s.ev).ok = true
  noPend : (C08.r8 s.ev).pendErr = false
  disabled : (C08.r8 s.ev).disabled = true → s.idleEnabled = false
  emptyAtRun : s.pc = .selRun → s.taken = s.acceptedAtMail ∧ s.acceptedAtMail ≤ s.accepted.length

def isNeutralR8 : Ev → Bool
  | .runEnd _ _ | .runPoll _ | .stopStart _ | .startEnd _ | .handlerStart _ | .handlerEnd _ _ | .stopEnd _
  | .tellResult _ => false
  | _ => true

theorem r8Run_neutral (m : C08.R8) (chunk : List Ev) (hn : chunk.all isNeutralR8 = true) : r8Run m chunk = m := by
  induction chunk generalizing m with
  | nil => rfl
  | cons e es ih =>
    simp only [List.all_cons, Bool.and_eq_true] at hn
    have : C08.r8Step m e = m := by cases e <;> simp_all [isNeutralR8, C08.r8Step]
    simp only [r8Run, List.foldl_cons, this] at ih ⊢
    exact ih m hn.2

/-- a chunk of actor events that keeps the fold `ok` with no pending error, given no pending error before -/
theorem RunInv_chunk (s s' : Sys) (chunk : List Ev) (h : RunInv s) (hev : s'.ev = s.ev ++ chunk)
    (hk : ∀ m : C08.R8, m.ok = true → m.pendErr = false → (m.disabled = true → s.idleEnabled = false) →
      (r8Run m chunk).ok = true ∧ (r8Run m chunk).pendErr = false ∧
      ((r8Run m chunk).disabled = true → s'.idleEnabled = false))
    (he : s'.pc = .selRun → s'.taken = s'.acceptedAtMail ∧ s'.acceptedAtMail ≤ s'.accepted.length) : RunInv s' := by
  obtain ⟨a, b, c⟩ := hk (C08.r8 s.ev) h.ok h.noPend h.disabled
  exact ⟨by rw [hev, r8_append]; exact a, by rw [hev, r8_append]; exact b, by rw [hev, r8_append]; exact c, he⟩

theorem RunInv_neutral (s s' : Sys) (chunk : List Ev) (h : RunInv s) (hev : s'.ev = s.ev ++ chunk)
    (hn : chunk.all isNeutralR8 = true) (hi : s'.idleEnabled = s.idleEnabled)
    (he : s'.pc = .selRun → s'.taken = s'.acceptedAtMail ∧ s'.acceptedAtMail ≤ s'.accepted.length) : RunInv s' :=
  RunInv_chunk s s' chunk h hev (fun m a b c => by rw [r8Run_neutral _ _ hn, hi]; exact ⟨a, b, c⟩) he

theorem RunInv_init (cap : Nat) (sc : Script) : RunInv (init cap sc) :=
  ⟨rfl, rfl, fun h => by simp [C08.r8, init] at h, fun h => by simp [init] at h⟩

/-- client-side updates: no actor event, idle flag / pc / bookkeeping untouched except that the
    acceptance log may grow -/
theorem RunInv_client (s s' : Sys) (chunk : List Ev) (h : RunInv s) (hev : s'.ev = s.ev ++ chunk)
    (hn : chunk.all isNeutralR8 = true) (hi : s'.idleEnabled = s.idleEnabled) (hpc : s'.pc = s.pc)
    (ht : s'.taken = s.taken) (hm : s'.acceptedAtMail = s.acceptedAtMail)
    (ha : s.accepted.length ≤ s'.accepted.length) : RunInv s' :=
  RunInv_neutral s s' chunk h hev hn hi (by
    intro hp; rw [hpc] at hp
    obtain ⟨a, b⟩ := h.emptyAtRun hp
    exact ⟨by rw [ht, hm]; exact a, by rw [hm]; omega⟩)

theorem RunInv_of_eq {s s' : Sys} (h : RunInv s) (hev : s'.ev = s.ev) (hi : s'.idleEnabled = s.idleEnabled)
    (hpc : s'.pc = s.pc) (ht : s'.taken = s.taken) (hm : s'.acceptedAtMail = s.acceptedAtMail)
    (ha : s'.accepted = s.accepted) : RunInv s' :=
  RunInv_client s s' [] h (by simp [hev]) rfl hi hpc ht hm (by rw [ha]; exact Nat.le_refl _)

theorem RunInv_complete (s : Sys) (oid : Nat) (r : Res) (why : Option Reason) (h : RunInv s) :
    RunInv (s.complete oid r why) := by
  cases why with
  | none => exact RunInv_client s _ [Ev.ret oid r s.clock] h (by simp [complete_ev]) rfl rfl rfl rfl rfl (Nat.le_refl _)
  | some w =>
    exact RunInv_client s _ [Ev.dead oid w, Ev.ret oid r s.clock] h (by simp [complete_ev]) rfl rfl rfl rfl rfl (Nat.le_refl _)

theorem RunInv_failSend (s : Sys) (oid : Nat) (it : Item) (h : RunInv s) : RunInv (s.failSend oid it) := by
  cases it <;> simp only [Sys.failSend] <;> exact RunInv_complete _ _ _ _ h

theorem RunInv_afterPush (s : Sys) (it : Item) (h : RunInv s) : RunInv (s.afterPush it) := by
  have hb : RunInv { s with mbox := s.mbox ++ [it], accepted := s.accepted ++ [it],
                            ev := s.ev ++ [.accepted it.oid s.accepted.length] } :=
    RunInv_client s _ _ h rfl rfl rfl rfl rfl rfl (by simp)
  cases it with
  | env mid k =>
    cases k <;> simp only [Sys.afterPush, Item.oid] at * <;>
      first
      | exact RunInv_complete _ _ _ _ hb
      | exact RunInv_of_eq hb rfl rfl rfl rfl rfl rfl
  | stop o => simp only [Sys.afterPush, Item.oid] at *; exact RunInv_complete _ _ _ _ hb

theorem RunInv_afterStrand (s : Sys) (it : Item) (h : RunInv s) : RunInv (s.afterStrand it) := by
  have hb : RunInv { s with stranded := s.stranded ++ [it] } := RunInv_of_eq h rfl rfl rfl rfl rfl rfl
  cases it with
  | env mid k =>
    cases k <;> simp only [Sys.afterStrand] <;>
      first
      | exact RunInv_complete _ _ _ _ hb
      | exact RunInv_of_eq hb rfl rfl rfl rfl rfl rfl
  | stop o => simp only [Sys.afterStrand]; exact RunInv_complete _ _ _ _ hb

theorem RunInv_finish (b : Sys) (o : Outcome) (evs : List Ev) (h : RunInv b)
    (hk : ∀ m : C08.R8, m.ok = true → m.pendErr = false →
      (r8Run m evs).ok = true ∧ (r8Run m evs).pendErr = false ∧ (r8Run m evs).disabled = m.disabled) :
    RunInv (b.finish o evs) := by
  obtain ⟨a, bb, c⟩ := hk (C08.r8 b.ev) h.ok h.noPend
  have hs : C08.r8 (b.finish o evs).ev = r8Run (C08.r8 b.ev) evs := by
    simp only [finish_ev, List.append_assoc, r8_append, r8Run, List.foldl_append]
    rfl
  exact ⟨by rw [hs]; exact a, by rw [hs]; exact bb, by rw [hs, c]; exact h.disabled, fun hp => by simp at hp⟩

theorem RunInv_chunk0 (s s' : Sys) (h : RunInv s) (hev : s'.ev = s.ev)
    (hi : s'.idleEnabled = s.idleEnabled)
    (he : s'.pc = .selRun → s'.taken = s'.acceptedAtMail ∧ s'.acceptedAtMail ≤ s'.accepted.length) : RunInv s' :=
  RunInv_neutral s s' [] h (by simp [hev]) rfl hi he

theorem RunInv_chunk2 (s s' : Sys) (c1 c2 : List Ev) (h : RunInv s) (hev : s'.ev = (s.ev ++ c1) ++ c2)
    (hk : ∀ m : C08.R8, m.ok = true → m.pendErr = false → (m.disabled = true → s.idleEnabled = false) →
      (r8Run m (c1 ++ c2)).ok = true ∧ (r8Run m (c1 ++ c2)).pendErr = false ∧
      ((r8Run m (c1 ++ c2)).disabled = true → s'.idleEnabled = false))
    (he : s'.pc = .selRun → s'.taken = s'.acceptedAtMail ∧ s'.acceptedAtMail ≤ s'.accepted.length) : RunInv s' :=
  RunInv_chunk s s' (c1 ++ c2) h (by rw [hev, List.append_assoc]) hk he

/-- the actor ends from a state reached by first logging `c0` -/
theorem RunInv_finish2 (s b : Sys) (o : Outcome) (c0 evs : List Ev) (h : RunInv s) (hbev : b.ev = s.ev ++ c0)
    (hk : ∀ m : C08.R8, m.ok = true → m.pendErr = false → (m.disabled = true → s.idleEnabled = false) →
      (r8Run m (c0 ++ evs)).ok = true ∧ (r8Run m (c0 ++ evs)).pendErr = false ∧
      (r8Run m (c0 ++ evs)).disabled = m.disabled)
    (hi : b.idleEnabled = s.idleEnabled) : RunInv (b.finish o evs) := by
  obtain ⟨a, bb, c⟩ := hk (C08.r8 s.ev) h.ok h.noPend h.disabled
  have hs : C08.r8 (b.finish o evs).ev = r8Run (C08.r8 s.ev) (c0 ++ evs) := by
    simp only [finish_ev, hbev, List.append_assoc, r8_append, r8Run, List.foldl_append]
    rfl
  exact ⟨by rw [hs]; exact a, by rw [hs]; exact bb, by rw [hs, c, finish_idleEnabled, hi]; exact h.disabled,
    fun hp => by simp at hp⟩

theorem RunInv_step (s s' : Sys) (l : Label) (h : RunInv s) (hf : FifoInv s) (he : EndInv s)
    (hs : step? s l = some s') : RunInv s' := by
  cases l with
  | pollMail =>
    simp only [step?] at hs
    split at hs
    · rename_i hpc
      have hopen : s.rxOpen = true := EndInv_live_ne s he (by rw [hpc]; nofun)
      obtain ⟨f1, f2, _, _⟩ := hf
      split at hs
      · rename_i hmb
        split at hs
        · split at hs <;> cases hs
          · exact RunInv_chunk s _ [_, _] h rfl (fun m a b c => by simp [r8Run, C08.r8Step, a, b]; exact c) (by simp)
          · exact RunInv_chunk s _ [_] h rfl (fun m a b c => by simp [r8Run, C08.r8Step, a, b]; exact c) (by simp)
        · cases hs
          refine RunInv_neutral s _ [] h (by simp) rfl rfl ?_
          intro _
          have hd := f2 hopen
          rw [hmb] at hd
          have : s.accepted.length ≤ s.taken := by
            have := congrArg List.length hd; simp at this; omega
          simp only; omega
      · cases hs
        exact RunInv_chunk s _ [_] h rfl (fun m a b c => by simp [r8Run, C08.r8Step, a, b]; exact c) (by simp)
      · split at hs <;> cases hs
        · exact RunInv_chunk s _ [_, _] h rfl (fun m a b c => by simp [r8Run, C08.r8Step, a, b]; exact c) (by simp)
        · exact RunInv_chunk s _ [_] h rfl (fun m a b c => by simp [r8Run, C08.r8Step, a, b]; exact c) (by simp)
    · cases hs
  | pollRun =>
    simp only [step?, Sys.runStep] at hs
    split at hs
    · rename_i hpc
      (repeat' split at hs) <;> (try cases hs)
      all_goals first
        | (refine RunInv_chunk0 s _ h rfl rfl ?_; simp; done)
        | (refine RunInv_chunk s _ [_] h rfl (fun m a b c => ?_) ?_ <;> simp_all [r8Run, C08.r8Step]; done)
        | (refine RunInv_chunk s _ [_, _] h rfl (fun m a b c => ?_) ?_ <;> simp_all [r8Run, C08.r8Step]; done)
        | (refine RunInv_chunk2 s _ [_] [_] h rfl (fun m a b c => ?_) ?_ <;> simp_all [r8Run, C08.r8Step]; done)
        | (refine RunInv_chunk2 s _ [_] [_, _] h rfl (fun m a b c => ?_) ?_ <;> simp_all [r8Run, C08.r8Step]; done)
        | (refine RunInv_finish2 s _ _ [] _ h ?_ (fun m a b c => ?_) rfl <;> simp_all [r8Run, C08.r8Step]; done)
        | (refine RunInv_finish2 s _ _ [Ev.runPoll s.runIdx] _ h rfl (fun m a b c => ?_) rfl <;> simp_all [r8Run, C08.r8Step]; done)
        | trace_state
    · cases hs
  | _ =>
    simp only [step?, Sys.issue] at hs
    (repeat' split at hs) <;> (try cases hs)
    all_goals first
      | exact h
      | exact RunInv_of_eq h rfl rfl rfl rfl rfl rfl
      | exact RunInv_client s _ _ h rfl rfl rfl rfl rfl rfl (Nat.le_refl _)
      | exact RunInv_complete _ _ _ _ h
      | exact RunInv_complete _ _ _ _ (RunInv_of_eq h rfl rfl rfl rfl rfl rfl)
      | exact RunInv_complete _ _ _ _ (RunInv_client s _ _ h rfl rfl rfl rfl rfl rfl (Nat.le_refl _))
      | exact RunInv_failSend _ _ _ (RunInv_of_eq h rfl rfl rfl rfl rfl rfl)
      | exact RunInv_failSend _ _ _ (RunInv_client s _ _ h rfl rfl rfl rfl rfl rfl (Nat.le_refl _))
      | exact RunInv_afterPush _ _ (RunInv_of_eq h rfl rfl rfl rfl rfl rfl)
      | exact RunInv_afterStrand _ _ (RunInv_of_eq h rfl rfl rfl rfl rfl rfl)
      | (split <;> exact RunInv_complete _ _ _ _ (RunInv_client s _ _ h rfl rfl rfl rfl rfl rfl (Nat.le_refl _)))
      | (refine RunInv_chunk0 s _ h rfl rfl ?_; simp_all; done)
      | (refine RunInv_chunk s _ [_] h rfl (fun m a b c => ?_) ?_ <;> simp_all [r8Run, C08.r8Step]; done)
      | (refine RunInv_chunk s _ [_, _] h rfl (fun m a b c => ?_) ?_ <;> simp_all [r8Run, C08.r8Step]; done)
      | (refine RunInv_finish2 s _ _ [] _ h ?_ (fun m a b c => ?_) rfl <;> simp_all [r8Run, C08.r8Step]; done)
      | trace_state

end Rsactor.Model
