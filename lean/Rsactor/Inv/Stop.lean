/- Once the loop has begun to stop (on_stop is running or the task has ended) nothing is dequeued any more:
   `taken` is frozen.  With `FifoInv` this gives the call-level statements of C01/C02 about stop(). -/
import Rsactor.Inv.Fifo
import Rsactor.Inv.End

namespace Rsactor.Model
open Rsactor.Monitor

@[simp] theorem failSend_taken (s : Sys) (oid : Nat) (it : Item) : (s.failSend oid it).taken = s.taken := by
  cases it <;> rfl
@[simp] theorem afterPush_taken (s : Sys) (it : Item) : (s.afterPush it).taken = s.taken := by
  cases it with
  | env m k => cases k <;> rfl
  | stop o => rfl
@[simp] theorem afterStrand_taken (s : Sys) (it : Item) : (s.afterStrand it).taken = s.taken := by
  cases it with
  | env m k => cases k <;> rfl
  | stop o => rfl

/-- the loop has left its `select!` for good -/
def isStopping : Pc → Bool
  | .stopping _ _ _ => true
  | .ended => true
  | _ => false

theorem taken_frozen (s s' : Sys) (l : Label) (hs : step? s l = some s') (hp : isStopping s.pc = true) :
    s'.taken = s.taken ∧ isStopping s'.pc = true := by
  step_cases l hs
  all_goals first
    | (simp_all [isStopping]; done)
    | (refine ⟨?_, ?_⟩ <;> simp_all [isStopping]; done)
    | (split <;> simp_all [isStopping]; done)

theorem taken_frozen_run (s s' : Sys) (ls : List Label) (hr : run? s ls = some s') (hp : isStopping s.pc = true) :
    s'.taken = s.taken ∧ isStopping s'.pc = true := by
  induction ls generalizing s with
  | nil => simp [run?] at hr; subst hr; exact ⟨rfl, hp⟩
  | cons l ls ih =>
    simp only [run?] at hr
    split at hr
    · cases hr
    · rename_i s1 hs1
      obtain ⟨h1, h2⟩ := taken_frozen s s1 l hs1 hp
      obtain ⟨h3, h4⟩ := ih s1 hr h2
      exact ⟨h3.trans h1, h4⟩

/-- `taken` never decreases -/
theorem taken_mono (s s' : Sys) (l : Label) (hs : step? s l = some s') : s.taken ≤ s'.taken := by
  step_cases l hs
  all_goals first
    | (simp_all; done)
    | (split <;> simp_all; done)
    | (simp only []; omega)

/-- the dequeue pointer never passes a stop marker: it is either at or before it, or just behind it with
    the loop stopping -/
def MarkerInv (s : Sys) : Prop :=
  ∀ k o, s.accepted[k]? = some (Item.stop o) → s.taken ≤ k ∨ (s.taken = k + 1 ∧ isStopping s.pc = true)

/-- the three invariants travel together: the mailbox is the untaken suffix of the log, the receiver is
    open exactly while the task lives, and the marker bound -/
def StopInv (s : Sys) : Prop := FifoInv s ∧ IdsInv s ∧ EndInv s ∧ MarkerInv s

theorem MarkerInv_frame (s s' : Sys) (h : MarkerInv s) (ha : ∃ suf, s'.accepted = s.accepted ++ suf)
    (ht : s'.taken = s.taken) (hp : isStopping s.pc = true → isStopping s'.pc = true)
    (hle : s.taken ≤ s.accepted.length) : MarkerInv s' := by
  obtain ⟨suf, ha⟩ := ha
  intro k o hk
  rw [ha] at hk
  by_cases hlt : k < s.accepted.length
  · rw [List.getElem?_append_left hlt] at hk
    rcases h k o hk with h1 | ⟨h1, h2⟩
    · exact Or.inl (by rw [ht]; exact h1)
    · exact Or.inr ⟨by rw [ht]; exact h1, hp h2⟩
  · exact Or.inl (by rw [ht]; omega)

theorem accepted_grows' (s s' : Sys) (l : Label) (hs : step? s l = some s') :
    ∃ suffix, s'.accepted = s.accepted ++ suffix := by
  step_cases l hs
  all_goals first
    | (refine ⟨[], ?_⟩; simp; done)
    | exact ⟨[_], afterPush_accepted _ _⟩
    | (refine ⟨[], ?_⟩; split <;> simp; done)

/-- the only step that moves the dequeue pointer is the mailbox poll taking the head of the mailbox -/
theorem taken_changes (s s' : Sys) (l : Label) (hs : step? s l = some s') :
    s'.taken = s.taken ∨
    (s'.taken = s.taken + 1 ∧ s.pc = .selMail ∧ s'.accepted = s.accepted ∧
      ∃ it rest, s.mbox = it :: rest ∧ (∀ o, it = Item.stop o → isStopping s'.pc = true)) := by
  step_cases l hs
  all_goals first
    | (left; simp; done)
    | (left; split <;> simp; done)
    | (right; refine ⟨rfl, by assumption, rfl, _, _, by assumption, ?_⟩; intro o ho; first | (cases ho; done) | rfl | (simp [isStopping]; done))
    | (left; simp_all; done)

theorem MarkerInv_step (s s' : Sys) (l : Label) (h : StopInv s) (hs : step? s l = some s') : MarkerInv s' := by
  obtain ⟨hf, hi, he, hm⟩ := h
  rcases taken_changes s s' l hs with ht | ⟨ht, hpc, hacc, it, rest, hmb, hstop⟩
  · exact MarkerInv_frame s s' hm (accepted_grows' s s' l hs) ht
      (fun hp => (taken_frozen s s' l hs hp).2) hf.1
  · -- the head of the mailbox is the log entry at `taken`
    have hopen : s.rxOpen = true := by
      cases hro : s.rxOpen
      · have := he.closedIff.mp hro; rw [hpc] at this; cases this
      · rfl
    have hdrop : s.accepted.drop s.taken = it :: rest := by rw [← hf.2.1 hopen, hmb]
    have hat : s.accepted[s.taken]? = some it := by
      have := congrArg List.head? hdrop
      simpa [List.head?_drop] using this
    intro k o hk
    rw [hacc] at hk
    rcases hm k o hk with h1 | ⟨_, h2⟩
    · rcases Nat.lt_or_eq_of_le h1 with hlt | heq
      · exact Or.inl (by rw [ht]; omega)
      · right
        rw [← heq] at hk
        rw [hat] at hk
        exact ⟨by rw [ht, heq], hstop o (Option.some.inj hk)⟩
    · rw [hpc] at h2; simp [isStopping] at h2

theorem StopInv_init (cap : Nat) (sc : Script) : StopInv (init cap sc) :=
  ⟨FifoInv_init cap sc, IdsInv_init cap sc, EndInv_init cap sc, by intro k o hk; simp [init] at hk⟩

theorem StopInv_step (s s' : Sys) (l : Label) (h : StopInv s) (hs : step? s l = some s') : StopInv s' :=
  ⟨FifoInv_step s s' l h.1 hs, IdsInv_step s s' l h.2.1 hs, EndInv_step s s' l h.2.2.1 h.2.1 hs,
   MarkerInv_step s s' l h hs⟩

theorem StopInv_run (cap : Nat) (sc : Script) (ls : List Label) (s : Sys)
    (hr : run? (init cap sc) ls = some s) : StopInv s :=
  run_inv StopInv_step (init cap sc) s ls (StopInv_init cap sc) hr

end Rsactor.Model
