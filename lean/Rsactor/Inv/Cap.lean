/- C09: the capacity bound `mbox.length + #granted ≤ cap` as an invariant of every run. -/
import Rsactor.Inv.Frame

namespace Rsactor.Model

theorem gc_append (a b : List Waiter) : grantedCount (a ++ b) = grantedCount a + grantedCount b := by
  simp [grantedCount, List.filter_append]

theorem gc_grantFirst_le (ws : List Waiter) : grantedCount (grantFirst ws) ≤ grantedCount ws + 1 := by
  induction ws with
  | nil => simp [grantFirst, grantedCount]
  | cons w ws ih =>
    simp only [grantFirst]
    split
    · rename_i h; simp [grantedCount, List.filter_cons, h] at *; omega
    · rename_i h; simp [grantedCount, List.filter_cons, h]

theorem gc_erase_le (ws : List Waiter) (w : Waiter) : grantedCount (ws.erase w) ≤ grantedCount ws := by
  unfold grantedCount
  exact (List.Sublist.filter _ (List.erase_sublist)).length_le

theorem gc_erase_granted (ws : List Waiter) (w : Waiter) (hm : w ∈ ws) (hg : w.granted = true) :
    grantedCount (ws.erase w) + 1 = grantedCount ws := by
  induction ws with
  | nil => cases hm
  | cons x xs ih =>
    by_cases hx : x = w
    · subst hx; simp [grantedCount, List.filter_cons, hg]
    · have : w ∈ xs := by
        cases hm with
        | head => exact absurd rfl hx
        | tail _ h => exact h
      have ih' := ih this
      have hne : (x == w) = false := by simp [hx]
      rw [List.erase_cons_tail (by simp [hne])]
      by_cases hxg : x.granted = true
      · simp [grantedCount, List.filter_cons, hxg] at *; omega
      · simp [grantedCount, List.filter_cons, hxg] at *; omega

theorem gc_map_acq (ws : List Waiter) (w : Waiter) :
    grantedCount (ws.map (fun x => if x = w then { x with acq := true } else x)) = grantedCount ws := by
  induction ws with
  | nil => rfl
  | cons x ws ih =>
    simp only [List.map_cons, grantedCount, List.filter_cons] at *
    by_cases h : x = w <;> by_cases hg : x.granted = true <;> simp [h, hg] <;> simp_all <;> omega

/-- every waiter that finished `reserve()` holds a permit -/
def AcqGranted (ws : List Waiter) : Prop := ∀ w ∈ ws, w.acq = true → w.granted = true

theorem AcqGranted_erase {ws : List Waiter} (h : AcqGranted ws) (w : Waiter) : AcqGranted (ws.erase w) :=
  fun x hx => h x (List.mem_of_mem_erase hx)

theorem AcqGranted_grantFirst {ws : List Waiter} (h : AcqGranted ws) : AcqGranted (grantFirst ws) := by
  induction ws with
  | nil => simpa [grantFirst] using h
  | cons w ws ih =>
    simp only [grantFirst]
    split
    · intro x hx
      cases hx with
      | head => exact h w (List.mem_cons_self ..)
      | tail _ hx => exact ih (fun y hy => h y (List.mem_cons_of_mem _ hy)) x hx
    · intro x hx
      cases hx with
      | head => intro _; rfl
      | tail _ hx => exact h x (List.mem_cons_of_mem _ hx)

theorem gc_snoc (ws : List Waiter) (w : Waiter) :
    grantedCount (ws ++ [w]) = grantedCount ws + (if w.granted then 1 else 0) := by
  simp only [gc_append]; cases h : w.granted <;> simp [grantedCount, h]

theorem AcqGranted_snoc {ws : List Waiter} (h : AcqGranted ws) (w : Waiter) (hw : w.acq = true → w.granted = true) :
    AcqGranted (ws ++ [w]) := by
  intro x hx
  simp at hx
  rcases hx with hx | hx
  · exact h x hx
  · subst hx; exact hw

theorem AcqGranted_map_acq {ws : List Waiter} (h : AcqGranted ws) (w : Waiter) (hg : w.granted = true) :
    AcqGranted (ws.map (fun x => if x = w then { x with acq := true } else x)) := by
  intro x hx
  simp only [List.mem_map] at hx
  obtain ⟨y, hy, rfl⟩ := hx
  split
  · rename_i hyw; subst hyw; intro _; simpa using hg
  · exact h y hy

theorem find_acq_granted {ws : List Waiter} (h : AcqGranted ws) {oid : Nat} {w : Waiter}
    (hf : ws.find? (fun w => decide (w.oid = oid ∧ w.acq = true)) = some w) : w ∈ ws ∧ w.granted = true := by
  have hm := List.mem_of_find?_eq_some hf
  have hp := List.find?_some hf
  simp at hp
  exact ⟨hm, h w hm hp.2⟩

def CapInv (s : Sys) : Prop :=
  s.mbox.length + grantedCount s.waiters ≤ s.cap ∧ AcqGranted s.waiters

theorem afterPush_mbox (s : Sys) (it : Item) :
    (s.afterPush it).mbox = s.mbox ++ [it] ∧ (s.afterPush it).waiters = s.waiters ∧
    (s.afterPush it).cap = s.cap := by
  cases it with
  | env mid k => cases k <;> simp [Sys.afterPush]
  | stop o => simp [Sys.afterPush]

theorem afterStrand_mbox (s : Sys) (it : Item) :
    (s.afterStrand it).mbox = s.mbox ∧ (s.afterStrand it).waiters = s.waiters ∧
    (s.afterStrand it).cap = s.cap := by
  cases it with
  | env mid k => cases k <;> simp [Sys.afterStrand]
  | stop o => simp [Sys.afterStrand]

theorem failSend_mbox (s : Sys) (oid : Nat) (it : Item) :
    (s.failSend oid it).mbox = s.mbox ∧ (s.failSend oid it).waiters = s.waiters ∧
    (s.failSend oid it).cap = s.cap := by
  cases it <;> simp [Sys.failSend]

theorem CapInv_step (s s' : Sys) (l : Label) (h : CapInv s) (hs : step? s l = some s') : CapInv s' := by
  obtain ⟨hb, ha⟩ := h
  unfold CapInv
  cases l <;> simp only [step?, Sys.issue, Sys.runStep] at hs <;> (repeat' split at hs) <;> (try cases hs) <;>
    (try (first | exact ⟨by simpa using hb, by simpa using ha⟩ | skip))
  all_goals (try (simp only [failSend_mbox, afterPush_mbox, afterStrand_mbox, gc_map_acq, complete_mbox, complete_waiters, complete_cap, finish_mbox, finish_waiters, finish_cap]))
  all_goals (try (refine ⟨?_, ?_⟩))
  all_goals (try grind [gc_append, gc_erase_le, gc_grantFirst_le, gc_erase_granted, AcqGranted_erase, AcqGranted_grantFirst, List.mem_of_find?_eq_some])
  all_goals first
    | exact AcqGranted_map_acq ha _ (by assumption)
    | exact AcqGranted_snoc ha _ (fun _ => rfl)
    | exact AcqGranted_snoc ha _ (fun h => by cases h)
    | (simp [gc_snoc]; omega)
    | (rename_i hf _; obtain ⟨hm, hg⟩ := find_acq_granted ha hf
       have := gc_erase_granted s.waiters _ hm hg
       simp; omega)

theorem cap_const (s s' : Sys) (l : Label) (hs : step? s l = some s') : s'.cap = s.cap := by
  cases l <;> simp only [step?, Sys.issue, Sys.runStep] at hs <;> (repeat' split at hs) <;> (try cases hs) <;>
    (try rfl) <;> simp [failSend_mbox, afterPush_mbox, afterStrand_mbox]

/-- C09 `bound`: accepted-but-not-taken items plus reserved slots never exceed the capacity. -/
theorem capacity_bound (cap : Nat) (sc : Script) (ls : List Label) (s : Sys)
    (hr : run? (init cap sc) ls = some s) :
    s.mbox.length + grantedCount s.waiters ≤ s.cap :=
  (run_inv CapInv_step (init cap sc) s ls
    ⟨by simp [init, grantedCount], by intro w hw; simp [init] at hw⟩ hr).1

end Rsactor.Model
