/- Identity bookkeeping: operation ids are fresh, a waiter's item carries its operation id, an item is
   accepted at most once, and nothing that is still waiting has been accepted. -/
import Rsactor.Inv.Tactics
import Rsactor.Monitor

namespace Rsactor.Model
open Rsactor.Monitor

/-- what identifies a waiter (flags `granted` / `acq` change, these do not) -/
def wkeys (ws : List Waiter) : List (Nat × Item) := ws.map fun w => (w.oid, w.item)

def accOids (s : Sys) : List Nat := s.accepted.map Item.oid

theorem wkeys_grantFirst (ws : List Waiter) : wkeys (grantFirst ws) = wkeys ws := by
  induction ws with
  | nil => rfl
  | cons w ws ih =>
    simp only [grantFirst]
    split
    · simp [wkeys] at ih ⊢; exact ih
    · simp [wkeys]

theorem wkeys_map_acq (ws : List Waiter) (w : Waiter) :
    wkeys (ws.map (fun x => if x = w then { x with acq := true } else x)) = wkeys ws := by
  induction ws with
  | nil => rfl
  | cons x xs ih =>
    simp only [wkeys, List.map_cons, List.map_map] at ih ⊢
    by_cases h : x = w <;> simp [h] <;> simpa using ih

theorem wkeys_erase_sublist (ws : List Waiter) (w : Waiter) : (wkeys (ws.erase w)).Sublist (wkeys ws) :=
  List.Sublist.map _ List.erase_sublist

theorem wkeys_append (a b : List Waiter) : wkeys (a ++ b) = wkeys a ++ wkeys b := by simp [wkeys]

structure IdsInv (s : Sys) : Prop where
  accLt : ∀ it ∈ s.accepted, it.oid < s.nextOid
  accNodup : (accOids s).Nodup
  wNodup : ((wkeys s.waiters).map (·.1)).Nodup
  wOk : ∀ p ∈ wkeys s.waiters, p.2.oid = p.1 ∧ p.1 < s.nextOid ∧ p.1 ∉ accOids s ∧
          opItem p.1 (s.spec p.1).kind = some p.2
  retLt : ∀ oid r a, Ev.ret oid r a ∈ s.ev → oid < s.nextOid
  clientNone : ∀ oid, s.nextOid ≤ oid → s.client oid = .none

def noRet : Ev → Bool
  | .ret _ _ _ => false
  | _ => true

theorem mem_ret_neutral (ev chunk : List Ev) (oid : Nat) (r : Res) (a : Nat) (hn : chunk.all noRet = true)
    (h : Ev.ret oid r a ∈ ev ++ chunk) : Ev.ret oid r a ∈ ev := by
  rcases List.mem_append.mp h with h | h
  · exact h
  · have := List.all_eq_true.mp hn _ h
    simp [noRet] at this

/-- frame: nothing the invariant looks at changed, except neutral events -/
theorem IdsInv_neutral (s s' : Sys) (chunk : List Ev) (h : IdsInv s)
    (hev : s'.ev = s.ev ++ chunk) (ha : s'.accepted = s.accepted) (hw : wkeys s'.waiters = wkeys s.waiters)
    (hsp : s'.spec = s.spec) (hno : s'.nextOid = s.nextOid) (hc : s'.client = s.client)
    (hn : chunk.all noRet = true) : IdsInv s' := by
  have hao : accOids s' = accOids s := by simp [accOids, ha]
  exact {
    accLt := by rw [ha, hno]; exact h.accLt
    accNodup := by rw [hao]; exact h.accNodup
    wNodup := by rw [hw]; exact h.wNodup
    wOk := by rw [hw, hao, hsp, hno]; exact h.wOk
    retLt := by
      intro oid r a hm; rw [hno]; rw [hev] at hm
      exact h.retLt oid r a (mem_ret_neutral _ _ _ _ _ hn hm)
    clientNone := by rw [hno, hc]; exact h.clientNone }

theorem IdsInv_of_eq {s s' : Sys} (h : IdsInv s) (hev : s'.ev = s.ev) (ha : s'.accepted = s.accepted)
    (hw : wkeys s'.waiters = wkeys s.waiters) (hsp : s'.spec = s.spec) (hno : s'.nextOid = s.nextOid)
    (hc : s'.client = s.client) : IdsInv s' :=
  IdsInv_neutral s s' [] h (by simp [hev]) ha hw hsp hno hc rfl

theorem IdsInv_neutral2 (s s' : Sys) (c1 c2 : List Ev) (h : IdsInv s)
    (hev : s'.ev = (s.ev ++ c1) ++ c2) (ha : s'.accepted = s.accepted) (hw : wkeys s'.waiters = wkeys s.waiters)
    (hsp : s'.spec = s.spec) (hno : s'.nextOid = s.nextOid) (hc : s'.client = s.client)
    (h1 : c1.all noRet = true) (h2 : c2.all noRet = true) : IdsInv s' :=
  IdsInv_neutral s s' (c1 ++ c2) h (by rw [hev, List.append_assoc]) ha hw hsp hno hc
    (by simp [List.all_append, h1, h2])

/-- `complete` of an operation that has been issued -/
theorem IdsInv_complete (s : Sys) (oid : Nat) (r : Res) (why : Option Reason) (h : IdsInv s)
    (hlt : oid < s.nextOid) : IdsInv (s.complete oid r why) := by
  exact {
    accLt := h.accLt
    accNodup := h.accNodup
    wNodup := h.wNodup
    wOk := h.wOk
    retLt := by
      intro o r' a hm
      cases why <;> simp [complete_ev] at hm
      all_goals (rcases hm with hm | hm
                 · exact h.retLt o r' a hm
                 · obtain ⟨rfl, _, _⟩ := hm; exact hlt)
    clientNone := by
      intro o ho
      simp only [complete_client, complete_nextOid] at ho ⊢
      have : o ≠ oid := by omega
      simp [setF, this, h.clientNone o ho] }

theorem IdsInv_finish (s : Sys) (o : Outcome) (evs : List Ev) (h : IdsInv s)
    (hn : evs.all noRet = true) : IdsInv (s.finish o evs) :=
  IdsInv_neutral s _ (evs ++ [.joined o]) h (by simp) rfl rfl rfl rfl rfl (by simp [hn, noRet])

theorem IdsInv_failSend (s : Sys) (oid : Nat) (it : Item) (h : IdsInv s) (hlt : oid < s.nextOid) :
    IdsInv (s.failSend oid it) := by
  cases it <;> simp only [Sys.failSend] <;> exact IdsInv_complete _ _ _ _ h hlt

theorem opItem_oid {oid : Nat} {k : OpKind} {it : Item} (h : opItem oid k = some it) : it.oid = oid := by
  cases k <;> simp [opItem] at h <;> subst h <;> rfl

theorem client_lt (s : Sys) (h : IdsInv s) (oid : Nat) (hc : s.client oid ≠ .none) : oid < s.nextOid := by
  apply Classical.byContradiction
  intro hn
  exact hc (h.clientNone oid (by omega))

theorem IdsInv_issue (s : Sys) (op : OpSpec) (h : IdsInv s) : IdsInv (issueBase s op) :=
  { accLt := fun it hi => Nat.lt_succ_of_lt (h.accLt it hi)
    accNodup := h.accNodup
    wNodup := h.wNodup
    wOk := by
      intro p hp
      obtain ⟨a, b, c, d⟩ := h.wOk p hp
      have hne : p.1 ≠ s.nextOid := by omega
      exact ⟨a, Nat.lt_succ_of_lt b, c, by simpa [issueBase, setF, hne] using d⟩
    retLt := by
      intro oid r a hm
      simp only [issueBase, List.mem_append, List.mem_singleton] at hm
      rcases hm with hm | hm
      · exact Nat.lt_succ_of_lt (h.retLt oid r a hm)
      · cases hm
    clientNone := fun o ho => h.clientNone o (by simp only [issueBase] at ho; omega) }

/-- a new waiter for the operation just issued -/
theorem IdsInv_addWaiter (b : Sys) (n : Nat) (it : Item) (g a : Bool) (cst : CSt) (h : IdsInv b)
    (hn : b.nextOid = n + 1) (hit : opItem n (b.spec n).kind = some it)
    (hfreshW : ∀ p ∈ wkeys b.waiters, p.1 < n) (hfreshA : ∀ it ∈ b.accepted, it.oid < n) :
    IdsInv { b with waiters := b.waiters ++ [⟨n, it, g, a⟩], client := setF b.client n cst } :=
  { accLt := h.accLt
    accNodup := h.accNodup
    wNodup := by
      simp only [wkeys_append, List.map_append]
      rw [List.nodup_append]
      refine ⟨h.wNodup, by simp [wkeys], ?_⟩
      intro x hx y hy
      simp [wkeys] at hy
      subst hy
      simp only [List.mem_map] at hx
      obtain ⟨p, hp, rfl⟩ := hx
      have := hfreshW p hp
      omega
    wOk := by
      intro p hp
      simp only [wkeys_append, List.mem_append] at hp
      rcases hp with hp | hp
      · exact h.wOk p hp
      · simp [wkeys] at hp
        subst hp
        refine ⟨opItem_oid hit, by simp only; omega, ?_, hit⟩
        intro hm
        simp only [accOids, List.mem_map] at hm
        obtain ⟨i, hi, hio⟩ := hm
        have := hfreshA i hi
        omega
    retLt := h.retLt
    clientNone := by
      intro o ho
      simp only at ho ⊢
      have : o ≠ n := by omega
      simp [setF, this, h.clientNone o ho] }

theorem IdsInv_erase (s : Sys) (w : Waiter) (h : IdsInv s) : IdsInv { s with waiters := s.waiters.erase w } :=
  { accLt := h.accLt
    accNodup := h.accNodup
    wNodup := (List.Sublist.map _ (wkeys_erase_sublist s.waiters w)).nodup h.wNodup
    wOk := fun p hp => h.wOk p ((wkeys_erase_sublist s.waiters w).subset hp)
    retLt := h.retLt
    clientNone := h.clientNone }

theorem erase_key_ne {ws : List Waiter} (hnd : ((wkeys ws).map (·.1)).Nodup) {w : Waiter} (hw : w ∈ ws)
    {p : Nat × Item} (hp : p ∈ wkeys (ws.erase w)) : p.1 ≠ w.oid := by
  induction ws with
  | nil => cases hw
  | cons x xs ih =>
    simp only [wkeys, List.map_cons, List.map_map, List.nodup_cons] at hnd
    by_cases hx : x = w
    · subst hx
      simp only [List.erase_cons_head] at hp
      intro he
      apply hnd.1
      simp only [wkeys, List.mem_map] at hp
      obtain ⟨y, hy, rfl⟩ := hp
      simp only [List.mem_map, Function.comp]
      exact ⟨y, hy, he⟩
    · have hne : (x == w) = false := by simp [hx]
      rw [List.erase_cons_tail (by simp [hne])] at hp
      simp only [wkeys, List.map_cons, List.mem_cons] at hp
      have hw' : w ∈ xs := by
        cases hw with
        | head => exact absurd rfl hx
        | tail _ h => exact h
      rcases hp with hp | hp
      · subst hp
        intro he
        apply hnd.1
        simp only [List.mem_map, Function.comp]
        exact ⟨w, hw', he.symm⟩
      · exact ih (by simpa [wkeys, List.map_map] using hnd.2) hw' (by simpa [wkeys] using hp)

/-- a waiter's item enters the mailbox -/
theorem IdsInv_afterPush (s : Sys) (w : Waiter) (h : IdsInv s) (hw : w ∈ s.waiters) :
    IdsInv ({ s with waiters := s.waiters.erase w }.afterPush w.item) := by
  have hk : (w.oid, w.item) ∈ wkeys s.waiters := by
    simp only [wkeys, List.mem_map]; exact ⟨w, hw, rfl⟩
  obtain ⟨k1, k2, k3, k4⟩ := h.wOk _ hk
  simp only at k1 k2 k3 k4
  have hb : IdsInv { s with waiters := s.waiters.erase w, mbox := s.mbox ++ [w.item],
                            accepted := s.accepted ++ [w.item],
                            ev := s.ev ++ [.accepted w.item.oid s.accepted.length] } :=
    { accLt := by
        intro it hi
        simp only [List.mem_append, List.mem_singleton] at hi
        rcases hi with hi | hi
        · exact h.accLt it hi
        · subst hi; rw [k1]; exact k2
      accNodup := by
        simp only [accOids, List.map_append, List.map_cons, List.map_nil]
        rw [List.nodup_append]
        refine ⟨h.accNodup, by simp, ?_⟩
        intro x hx y hy
        simp at hy; subst hy
        intro he; subst he
        rw [k1] at hx; exact k3 hx
      wNodup := (List.Sublist.map _ (wkeys_erase_sublist s.waiters w)).nodup h.wNodup
      wOk := by
        intro p hp
        obtain ⟨a, b, c, d⟩ := h.wOk p ((wkeys_erase_sublist s.waiters w).subset hp)
        refine ⟨a, b, ?_, d⟩
        simp only [accOids, List.map_append, List.map_cons, List.map_nil, List.mem_append,
          List.mem_singleton, not_or]
        refine ⟨c, ?_⟩
        rw [k1]
        exact erase_key_ne h.wNodup hw hp
      retLt := by
        intro oid r a hm
        simp only [List.mem_append, List.mem_singleton] at hm
        rcases hm with hm | hm
        · exact h.retLt oid r a hm
        · cases hm
      clientNone := h.clientNone }
  have hoid : w.item.oid < s.nextOid := by rw [k1]; exact k2
  cases hit : w.item with
  | env mid k =>
    rw [hit] at hb hoid
    simp only [Item.oid] at hb hoid
    cases k
    · simp only [Sys.afterPush, Item.oid]; exact IdsInv_complete _ _ _ _ hb hoid
    · simp only [Sys.afterPush, Item.oid]
      exact {
        accLt := hb.accLt, accNodup := hb.accNodup, wNodup := hb.wNodup, wOk := hb.wOk, retLt := hb.retLt
        clientNone := by
          intro o ho
          simp only at ho ⊢
          have : o ≠ mid := by omega
          simp [setF, this, h.clientNone o ho] }
  | stop o =>
    rw [hit] at hb hoid
    simp only [Item.oid] at hb hoid
    simp only [Sys.afterPush, Item.oid]; exact IdsInv_complete _ _ _ _ hb hoid

theorem IdsInv_afterStrand (s : Sys) (w : Waiter) (h : IdsInv s) (hw : w ∈ s.waiters) :
    IdsInv ({ s with waiters := s.waiters.erase w }.afterStrand w.item) := by
  have hk : (w.oid, w.item) ∈ wkeys s.waiters := by
    simp only [wkeys, List.mem_map]; exact ⟨w, hw, rfl⟩
  obtain ⟨k1, k2, _, _⟩ := h.wOk _ hk
  simp only at k1 k2
  have hb : IdsInv { s with waiters := s.waiters.erase w, stranded := s.stranded ++ [w.item] } :=
    IdsInv_of_eq (IdsInv_erase s w h) rfl rfl rfl rfl rfl rfl
  have hoid : w.item.oid < s.nextOid := by rw [k1]; exact k2
  cases hit : w.item with
  | env mid k =>
    rw [hit] at hb hoid
    simp only [Item.oid] at hb hoid
    cases k
    · simp only [Sys.afterStrand, Item.oid]; exact IdsInv_complete _ _ _ _ hb hoid
    · simp only [Sys.afterStrand, Item.oid]
      exact {
        accLt := hb.accLt, accNodup := hb.accNodup, wNodup := hb.wNodup, wOk := hb.wOk, retLt := hb.retLt
        clientNone := by
          intro o ho
          simp only at ho ⊢
          have : o ≠ mid := by omega
          simp [setF, this, h.clientNone o ho] }
  | stop o =>
    rw [hit] at hb hoid
    simp only [Item.oid] at hb hoid
    simp only [Sys.afterStrand, Item.oid]; exact IdsInv_complete _ _ _ _ hb hoid

theorem IdsInv_init (cap : Nat) (sc : Script) : IdsInv (init cap sc) :=
  { accLt := by simp [init], accNodup := by simp [init, accOids], wNodup := by simp [init, wkeys],
    wOk := by simp [init, wkeys], retLt := by simp [init], clientNone := by simp [init] }

theorem find_waiter {ws : List Waiter} {q : Waiter → Bool} {w : Waiter} (hf : ws.find? q = some w) :
    w ∈ ws ∧ q w = true := ⟨List.mem_of_find?_eq_some hf, List.find?_some hf⟩

theorem waiter_lt (s : Sys) (h : IdsInv s) {w : Waiter} (hw : w ∈ s.waiters) : w.oid < s.nextOid := by
  have hk : (w.oid, w.item) ∈ wkeys s.waiters := by
    simp only [wkeys, List.mem_map]; exact ⟨w, hw, rfl⟩
  exact (h.wOk _ hk).2.1

theorem IdsInv_step (s s' : Sys) (l : Label) (h : IdsInv s) (hs : step? s l = some s') : IdsInv s' := by
  cases l with
  | issue hd op =>
    simp only [step?, Sys.issue] at hs
    have hb := IdsInv_issue s op h
    split at hs
    · split at hs
      · cases hs
        split
        · exact IdsInv_complete _ _ _ _ (IdsInv_of_eq hb rfl rfl rfl rfl rfl rfl) (Nat.lt_succ_self _)
        · exact IdsInv_complete _ _ _ _ hb (Nat.lt_succ_self _)
      · rename_i it hit
        have hit' : opItem s.nextOid ((issueBase s op).spec s.nextOid).kind = some it := by
          simpa [issueBase, setF] using hit
        have hfW : ∀ p ∈ wkeys s.waiters, p.1 < s.nextOid := fun p hp => (h.wOk p hp).2.1
        split at hs
        · cases hs; exact IdsInv_failSend _ _ _ hb (Nat.lt_succ_self _)
        · split at hs <;> cases hs <;>
            exact IdsInv_addWaiter _ s.nextOid it _ _ .waiting hb rfl hit' hfW h.accLt
    · cases hs
  | grantWake oid =>
    simp only [step?] at hs
    split at hs
    · rename_i w hf
      obtain ⟨hw, hq⟩ := find_waiter hf
      have hwo : w.oid = oid := by simp at hq; exact hq.1
      split at hs
      · cases hs
        exact IdsInv_failSend _ _ _ (IdsInv_erase s w h) (hwo ▸ waiter_lt s h hw)
      · split at hs
        · cases hs; exact IdsInv_of_eq h rfl rfl (wkeys_map_acq _ _) rfl rfl rfl
        · cases hs
    · cases hs
  | push oid =>
    simp only [step?] at hs
    split at hs
    · rename_i w hf
      obtain ⟨hw, _⟩ := find_waiter hf
      split at hs <;> cases hs
      · exact IdsInv_afterPush s w h hw
      · exact IdsInv_afterStrand s w h hw
    · cases hs
  | timeoutFire oid =>
    simp only [step?] at hs
    split at hs
    · split at hs
      · cases hs
      · split at hs
        · rename_i hc
          have hlt := client_lt s h oid (by rw [hc]; nofun)
          split at hs
          · rename_i w hf
            split at hs
            · cases hs
            · cases hs
              exact IdsInv_complete _ _ _ _ (IdsInv_erase s w h) hlt
          · cases hs
        · rename_i hc
          split at hs
          · cases hs
          · cases hs
            exact IdsInv_complete _ _ _ _ h (client_lt s h oid (by rw [hc]; nofun))
        · cases hs
    · cases hs
  | recvReply oid =>
    simp only [step?] at hs
    split at hs
    · rename_i hc
      have hlt := client_lt s h oid (by rw [hc]; nofun)
      split at hs
      · cases hs; exact IdsInv_complete _ _ _ _ h hlt
      · cases hs; exact IdsInv_complete _ _ _ _ h hlt
      · split at hs
        · cases hs; exact IdsInv_complete _ _ _ _ h hlt
        · cases hs
    · cases hs
  | pollMail =>
    simp only [step?] at hs
    (repeat' split at hs) <;> (try cases hs)
    all_goals first
      | exact IdsInv_of_eq h rfl rfl rfl rfl rfl rfl
      | exact IdsInv_neutral s _ _ h rfl rfl rfl rfl rfl rfl rfl
      | exact IdsInv_neutral s _ _ h rfl rfl (wkeys_grantFirst _) rfl rfl rfl rfl
  | _ =>
    simp only [step?, Sys.runStep] at hs
    (repeat' split at hs) <;> (try cases hs)
    all_goals first
      | exact h
      | exact IdsInv_of_eq h rfl rfl rfl rfl rfl rfl
      | exact IdsInv_neutral s _ _ h rfl rfl rfl rfl rfl rfl rfl
      | exact IdsInv_neutral2 s _ _ _ h rfl rfl rfl rfl rfl rfl rfl rfl
      | exact IdsInv_finish _ _ _ h rfl
      | exact IdsInv_finish _ _ _ (IdsInv_of_eq h rfl rfl rfl rfl rfl rfl) rfl
      | exact IdsInv_finish _ _ _ (IdsInv_neutral s _ _ h rfl rfl rfl rfl rfl rfl rfl) rfl

end Rsactor.Model
