/- C13: dead letters and failing returns are paired, for every run. -/
import Rsactor.Inv.Tactics
import Rsactor.Monitor

namespace Rsactor.Model
open Rsactor.Monitor

def DeadInv (s : Sys) : Prop :=
  s.ev.foldl C13.step (some none) = some none ∧
  s.dead = C13.deadLetters s.ev ∧
  C13.deadLetters s.ev = C13.failures s.ev

theorem fold_ok_append (ev chunk : List Ev) (h : ev.foldl C13.step (some none) = some none)
    (hc : chunk.foldl C13.step (some none) = some none) :
    (ev ++ chunk).foldl C13.step (some none) = some none := by
  rw [List.foldl_append, h, hc]

theorem dl_append (a b : List Ev) : C13.deadLetters (a ++ b) = C13.deadLetters a ++ C13.deadLetters b := by
  simp [C13.deadLetters, List.filterMap_append]
theorem fl_append (a b : List Ev) : C13.failures (a ++ b) = C13.failures a ++ C13.failures b := by
  simp [C13.failures, List.filterMap_append]

theorem DeadInv_complete (s : Sys) (oid : Nat) (r : Res) (why : Option Reason) (h : DeadInv s)
    (hw : why = C13.reasonOf r) : DeadInv (s.complete oid r why) := by
  obtain ⟨h1, h2, h3⟩ := h
  subst hw
  refine ⟨?_, ?_, ?_⟩
  · simp only [complete_ev, List.append_assoc]
    apply fold_ok_append _ _ h1
    cases r <;> simp [C13.reasonOf, C13.step]
  · simp only [complete_dead, complete_ev, List.append_assoc, dl_append, h2]
    cases r <;> simp [C13.reasonOf, C13.deadLetters]
  · simp only [complete_ev, List.append_assoc, dl_append, fl_append, h3]
    cases r <;> simp [C13.reasonOf, C13.deadLetters, C13.failures]

/-- events that are neither dead letters nor returns do not disturb the pairing -/
def isNeutral : Ev → Bool
  | .dead _ _ => false
  | .ret _ _ _ => false
  | _ => true

theorem neutral_step (e : Ev) (h : isNeutral e = true) : C13.step (some none) e = some none := by
  cases e <;> simp_all [C13.step, isNeutral]

theorem neutral_fold (chunk : List Ev) (hn : chunk.all isNeutral = true) :
    chunk.foldl C13.step (some none) = some none := by
  induction chunk with
  | nil => rfl
  | cons e es ih =>
    simp only [List.all_cons, Bool.and_eq_true] at hn
    simp only [List.foldl_cons, neutral_step e hn.1]
    exact ih hn.2

theorem neutral_dl (chunk : List Ev) (hn : chunk.all isNeutral = true) : C13.deadLetters chunk = [] := by
  induction chunk with
  | nil => rfl
  | cons e es ih =>
    simp only [List.all_cons, Bool.and_eq_true] at hn
    have := ih hn.2
    cases e <;> simp_all [C13.deadLetters, isNeutral]

theorem neutral_fl (chunk : List Ev) (hn : chunk.all isNeutral = true) : C13.failures chunk = [] := by
  induction chunk with
  | nil => rfl
  | cons e es ih =>
    simp only [List.all_cons, Bool.and_eq_true] at hn
    have := ih hn.2
    cases e <;> simp_all [C13.failures, isNeutral]

theorem DeadInv_neutral (s s' : Sys) (chunk : List Ev) (h : DeadInv s)
    (hev : s'.ev = s.ev ++ chunk) (hd : s'.dead = s.dead) (hn : chunk.all isNeutral = true) : DeadInv s' := by
  obtain ⟨h1, h2, h3⟩ := h
  refine ⟨?_, ?_, ?_⟩
  · rw [hev]; exact fold_ok_append _ _ h1 (neutral_fold _ hn)
  · rw [hev, hd, dl_append, neutral_dl _ hn, h2]; simp
  · rw [hev, dl_append, fl_append, neutral_dl _ hn, neutral_fl _ hn, h3]

theorem DeadInv_neutral2 (s s' : Sys) (c1 c2 : List Ev) (h : DeadInv s)
    (hev : s'.ev = (s.ev ++ c1) ++ c2) (hd : s'.dead = s.dead)
    (h1 : c1.all isNeutral = true) (h2 : c2.all isNeutral = true) : DeadInv s' :=
  DeadInv_neutral s s' (c1 ++ c2) h (by rw [hev, List.append_assoc]) hd (by simp [List.all_append, h1, h2])

theorem DeadInv_of_eq {s s' : Sys} (h : DeadInv s) (he : s'.ev = s.ev) (hd : s'.dead = s.dead) : DeadInv s' := by
  unfold DeadInv at *; rw [he, hd]; exact h

theorem DeadInv_finish (s : Sys) (o : Outcome) (evs : List Ev) (h : DeadInv s)
    (hn : evs.all isNeutral = true) : DeadInv (s.finish o evs) :=
  DeadInv_neutral s _ (evs ++ [.joined o]) h (by simp) rfl (by simp [hn, isNeutral])

theorem DeadInv_failSend (s : Sys) (oid : Nat) (it : Item) (h : DeadInv s) : DeadInv (s.failSend oid it) := by
  cases it <;> exact DeadInv_complete _ _ _ _ h rfl

theorem DeadInv_afterPush (s : Sys) (it : Item) (h : DeadInv s) : DeadInv (s.afterPush it) := by
  have hb : DeadInv { s with mbox := s.mbox ++ [it], accepted := s.accepted ++ [it],
                             ev := s.ev ++ [.accepted it.oid s.accepted.length] } :=
    DeadInv_neutral s _ _ h rfl rfl rfl
  cases it with
  | env mid k =>
    cases k
    · exact DeadInv_complete _ _ _ _ hb rfl
    · exact DeadInv_of_eq hb rfl rfl
  | stop o => exact DeadInv_complete _ _ _ _ hb rfl

theorem DeadInv_afterStrand (s : Sys) (it : Item) (h : DeadInv s) : DeadInv (s.afterStrand it) := by
  have hb : DeadInv { s with stranded := s.stranded ++ [it] } := DeadInv_of_eq h rfl rfl
  cases it with
  | env mid k =>
    cases k
    · exact DeadInv_complete _ _ _ _ hb rfl
    · exact DeadInv_of_eq hb rfl rfl
  | stop o => exact DeadInv_complete _ _ _ _ hb rfl

theorem DeadInv_step (s s' : Sys) (l : Label) (h : DeadInv s) (hs : step? s l = some s') : DeadInv s' := by
  step_cases l hs
  all_goals first
    | exact h
    | exact DeadInv_of_eq h rfl rfl
    | exact DeadInv_neutral s _ _ h rfl rfl rfl
    | exact DeadInv_finish _ _ _ h rfl
    | exact DeadInv_finish _ _ _ (DeadInv_of_eq h rfl rfl) rfl
    | exact DeadInv_complete _ _ _ _ h rfl
    | exact DeadInv_complete _ _ _ _ (DeadInv_of_eq h rfl rfl) rfl
    | exact DeadInv_complete _ _ _ _ (DeadInv_neutral s _ _ h rfl rfl rfl) rfl
    | exact DeadInv_failSend _ _ _ (DeadInv_of_eq h rfl rfl)
    | exact DeadInv_failSend _ _ _ (DeadInv_neutral s _ _ h rfl rfl rfl)
    | exact DeadInv_afterPush _ _ (DeadInv_of_eq h rfl rfl)
    | exact DeadInv_afterStrand _ _ (DeadInv_of_eq h rfl rfl)
    | (split <;> exact DeadInv_complete _ _ _ _ (DeadInv_neutral s _ _ h rfl rfl rfl) rfl)
    | exact DeadInv_finish _ _ _ (DeadInv_neutral s _ _ h rfl rfl rfl) rfl
    | exact DeadInv_neutral2 s _ _ _ h rfl rfl rfl rfl
    | exact DeadInv_neutral s _ _ h (by simp [finish_ev]; rfl) rfl (by rfl)
    | trace_state

theorem DeadInv_init (cap : Nat) (sc : Script) : DeadInv (init cap sc) := by
  simp [DeadInv, init, C13.deadLetters, C13.failures]

end Rsactor.Model
