import Rsactor.Inv.Frame
namespace Rsactor.Model

/-- case analysis of one `step?` equation into its (label × branch) leaves; each leaf has `hs`
    eliminated, i.e. the post-state is an explicit record update of the pre-state -/
macro "step_cases " l:ident hs:ident : tactic =>
  `(tactic| (cases $l:ident <;> simp only [step?, Sys.issue, Sys.runStep] at $hs:ident <;>
             (repeat' split at $hs:ident) <;> (try cases $hs:ident)))

/-- the state right after `issue` allocated the operation id and logged `issued` -/
def issueBase (s : Sys) (op : OpSpec) : Sys :=
  { s with nextOid := s.nextOid + 1, spec := setF s.spec s.nextOid op,
           deadline := setF s.deadline s.nextOid (opDeadline s.clock op),
           inflight := s.inflight + 1,
           ev := s.ev ++ [.issued s.nextOid op.kind op.timeout s.clock] }

end Rsactor.Model
