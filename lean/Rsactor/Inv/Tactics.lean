import Rsactor.Inv.Frame
namespace Rsactor.Model

/-- case analysis of one `step?` equation into its (label × branch) leaves; each leaf has `hs`
    eliminated, i.e. the post-state is an explicit record update of the pre-state -/
macro "step_cases " l:ident hs:ident : tactic =>
  `(tactic| (cases $l:ident <;> simp only [step?, Sys.issue, Sys.runStep] at $hs:ident <;>
             (repeat' split at $hs:ident) <;> (try cases $hs:ident)))

end Rsactor.Model
