/- C05: the JoinHandle output is the one the hook events of the run dictate. -/
import Rsactor.Inv.Tactics
import Rsactor.Monitor

namespace Rsactor.Model
open Rsactor.Monitor

def killedOf : Pc → Option Bool
  | .stopping k _ _ => some k
  | _ => none

def runErrOf : Pc → Bool
  | .stopping _ r _ => r
  | _ => false

/-- the summary a live actor's history must have -/
def summOf (s : Sys) : C05.Summ :=
  { panic := false, startErr := false, killed := killedOf s.pc, stopOut := none, log := s.hooks,
    runErr := runErrOf s.pc, joined := [], stopPanic := false }

/-- what the summary of a finished actor's history satisfies -/
def EndOk (m : C05.Summ) (o : Outcome) : Prop :=
  m.joined = [o] ∧ C05.expectedOf m = some o ∧ (m.startErr = true → m.killed = none) ∧
  (m.panic = true → m.killed.isSome = m.stopPanic)

def ResInv (s : Sys) : Prop :=
  (s.pc ≠ .ended → C05.summ s.ev = summOf s ∧ s.result = none) ∧
  (s.pc = .ended → ∃ o, s.result = some o ∧ EndOk (C05.summ s.ev) o) ∧
  (s.pc = .starting → s.hooks = [])

def summRun (m : C05.Summ) (chunk : List Ev) : C05.Summ := chunk.foldl C05.upd m

theorem summ_append (ev chunk : List Ev) : C05.summ (ev ++ chunk) = summRun (C05.summ ev) chunk := by
  simp [C05.summ, summRun, List.foldl_append]

/-- events that do not belong to the actor's hooks -/
def isQuiet : Ev → Bool
  | .issued _ _ _ _ | .accepted _ _ | .ret _ _ _ | .dead _ _ | .termConsumed | .replySent _ | .tellResult _
  | .runPoll _ | .handlerEnd _ .ok | .handleNew _ _ | .handleDrop _ | .upgradeFailed _ | .probeAlive _ _ => true
  | _ => false

theorem summRun_quiet (m : C05.Summ) (chunk : List Ev) (hn : chunk.all isQuiet = true) : summRun m chunk = m := by
  induction chunk generalizing m with
  | nil => rfl
  | cons e es ih =>
    simp only [List.all_cons, Bool.and_eq_true] at hn
    have : C05.upd m e = m := by
      cases e <;> simp_all [isQuiet, C05.upd]
      all_goals (rename_i o; cases o <;> simp_all [isQuiet, C05.upd])
    simp only [summRun, List.foldl_cons, this] at ih ⊢
    exact ih m hn.2

/-- quiet events, no change of pc / hooks / result -/
theorem ResInv_quiet (s s' : Sys) (chunk : List Ev) (h : ResInv s) (hev : s'.ev = s.ev ++ chunk)
    (hpc : s'.pc = s.pc) (hh : s'.hooks = s.hooks) (hr : s'.result = s.result)
    (hn : chunk.all isQuiet = true) : ResInv s' := by
  obtain ⟨h1, h2, h3⟩ := h
  have hs : C05.summ s'.ev = C05.summ s.ev := by rw [hev, summ_append, summRun_quiet _ _ hn]
  refine ⟨?_, ?_, ?_⟩
  · intro hne; rw [hpc] at hne
    obtain ⟨a, b⟩ := h1 hne
    exact ⟨by rw [hs, a]; simp [summOf, hpc, hh], by rw [hr]; exact b⟩
  · intro he; rw [hpc] at he
    obtain ⟨o, a, b⟩ := h2 he
    exact ⟨o, by rw [hr]; exact a, by rw [hs]; exact b⟩
  · intro hst; rw [hh]; exact h3 (hpc ▸ hst)

theorem ResInv_of_eq {s s' : Sys} (h : ResInv s) (hev : s'.ev = s.ev) (hpc : s'.pc = s.pc)
    (hh : s'.hooks = s.hooks) (hr : s'.result = s.result) : ResInv s' :=
  ResInv_quiet s s' [] h (by simp [hev]) hpc hh hr rfl

theorem ResInv_complete (s : Sys) (oid : Nat) (r : Res) (why : Option Reason) (h : ResInv s) :
    ResInv (s.complete oid r why) := by
  cases why with
  | none => exact ResInv_quiet s _ [Ev.ret oid r s.clock] h (by simp [complete_ev]) rfl rfl rfl rfl
  | some w => exact ResInv_quiet s _ [Ev.dead oid w, Ev.ret oid r s.clock] h (by simp [complete_ev]) rfl rfl rfl rfl

theorem ResInv_failSend (s : Sys) (oid : Nat) (it : Item) (h : ResInv s) : ResInv (s.failSend oid it) := by
  cases it <;> simp only [Sys.failSend] <;> exact ResInv_complete _ _ _ _ h

theorem ResInv_afterPush (s : Sys) (it : Item) (h : ResInv s) : ResInv (s.afterPush it) := by
  have hb : ResInv { s with mbox := s.mbox ++ [it], accepted := s.accepted ++ [it],
                            ev := s.ev ++ [.accepted it.oid s.accepted.length] } :=
    ResInv_quiet s _ _ h rfl rfl rfl rfl rfl
  cases it with
  | env mid k =>
    cases k
    · exact ResInv_complete _ _ _ _ hb
    · exact ResInv_of_eq hb rfl rfl rfl rfl
  | stop o => exact ResInv_complete _ _ _ _ hb

theorem ResInv_afterStrand (s : Sys) (it : Item) (h : ResInv s) : ResInv (s.afterStrand it) := by
  have hb : ResInv { s with stranded := s.stranded ++ [it] } := ResInv_of_eq h rfl rfl rfl rfl
  cases it with
  | env mid k =>
    cases k
    · exact ResInv_complete _ _ _ _ hb
    · exact ResInv_of_eq hb rfl rfl rfl rfl
  | stop o => exact ResInv_complete _ _ _ _ hb

/-- a live actor takes a step that stays alive: the summary follows the state -/
theorem ResInv_live (s s' : Sys) (chunk : List Ev) (h : ResInv s) (hev : s'.ev = s.ev ++ chunk)
    (hl : s.pc ≠ .ended) (hl' : s'.pc ≠ .ended) (hst : s'.pc ≠ .starting) (hr : s'.result = s.result)
    (hc : summRun (summOf s) chunk = summOf s') : ResInv s' := by
  obtain ⟨h1, _, _⟩ := h
  obtain ⟨a, b⟩ := h1 hl
  refine ⟨fun _ => ⟨by rw [hev, summ_append, a, hc], by rw [hr]; exact b⟩, fun he => absurd he hl', fun h => absurd h hst⟩

theorem ResInv_live0 (s s' : Sys) (h : ResInv s) (hev : s'.ev = s.ev)
    (hl : s.pc ≠ .ended) (hl' : s'.pc ≠ .ended) (hst : s'.pc ≠ .starting) (hr : s'.result = s.result)
    (hc : summOf s = summOf s') : ResInv s' :=
  ResInv_live s s' [] h (by simp [hev]) hl hl' hst hr hc

theorem ResInv_live2 (s s' : Sys) (c1 c2 : List Ev) (h : ResInv s) (hev : s'.ev = (s.ev ++ c1) ++ c2)
    (hl : s.pc ≠ .ended) (hl' : s'.pc ≠ .ended) (hst : s'.pc ≠ .starting) (hr : s'.result = s.result)
    (hc : summRun (summOf s) (c1 ++ c2) = summOf s') : ResInv s' :=
  ResInv_live s s' (c1 ++ c2) h (by rw [hev, List.append_assoc]) hl hl' hst hr hc

/-- the actor ends with outcome `o` -/
theorem ResInv_finish (s : Sys) (o : Outcome) (evs : List Ev) (h : ResInv s) (hl : s.pc ≠ .ended)
    (hc : EndOk (summRun (summOf s) (evs ++ [.joined o])) o) : ResInv (s.finish o evs) := by
  obtain ⟨h1, _, _⟩ := h
  obtain ⟨a, _⟩ := h1 hl
  have hs : C05.summ (s.finish o evs).ev = summRun (summOf s) (evs ++ [.joined o]) := by
    simp only [finish_ev, List.append_assoc]; rw [summ_append, a]
  refine ⟨fun hne => absurd rfl hne, fun _ => ⟨o, rfl, by rw [hs]; exact hc⟩, fun h => by simp at h⟩

/-- the actor ends from a base state `b` that differs from `s` by bookkeeping and the events `c0` -/
theorem ResInv_finish' (s b : Sys) (o : Outcome) (c0 evs : List Ev) (h : ResInv s) (hl : s.pc ≠ .ended)
    (hbev : b.ev = s.ev ++ c0)
    (hc : EndOk (summRun (summOf s) (c0 ++ (evs ++ [.joined o]))) o) : ResInv (b.finish o evs) := by
  obtain ⟨h1, _, _⟩ := h
  obtain ⟨a, _⟩ := h1 hl
  have hs : C05.summ (b.finish o evs).ev = summRun (summOf s) (c0 ++ (evs ++ [.joined o])) := by
    simp only [finish_ev, hbev, List.append_assoc]; rw [summ_append, a]
  refine ⟨fun hne => absurd rfl hne, fun _ => ⟨o, rfl, by rw [hs]; exact hc⟩, fun h => by simp at h⟩

theorem ResInv_init (cap : Nat) (sc : Script) : ResInv (init cap sc) := by
  refine ⟨fun _ => ⟨rfl, rfl⟩, fun h => by simp [init] at h, fun _ => rfl⟩

theorem ResInv_step (s s' : Sys) (l : Label) (h : ResInv s) (hs : step? s l = some s') : ResInv s' := by
  step_cases l hs
  all_goals first
    | exact h
    | exact ResInv_of_eq h rfl rfl rfl rfl
    | exact ResInv_quiet s _ _ h rfl rfl rfl rfl rfl
    | exact ResInv_complete _ _ _ _ h
    | exact ResInv_complete _ _ _ _ (ResInv_of_eq h rfl rfl rfl rfl)
    | exact ResInv_complete _ _ _ _ (ResInv_quiet s _ _ h rfl rfl rfl rfl rfl)
    | exact ResInv_failSend _ _ _ (ResInv_of_eq h rfl rfl rfl rfl)
    | exact ResInv_failSend _ _ _ (ResInv_quiet s _ _ h rfl rfl rfl rfl rfl)
    | exact ResInv_afterPush _ _ (ResInv_of_eq h rfl rfl rfl rfl)
    | exact ResInv_afterStrand _ _ (ResInv_of_eq h rfl rfl rfl rfl)
    | (split <;> exact ResInv_complete _ _ _ _ (ResInv_quiet s _ _ h rfl rfl rfl rfl rfl))
    | (refine ResInv_live0 s _ h rfl ?_ ?_ ?_ rfl ?_ <;> simp [*, summOf, killedOf, runErrOf]; done)
    | (refine ResInv_live s _ _ h rfl ?_ ?_ ?_ rfl ?_ <;>
         simp [*, summRun, C05.upd, summOf, killedOf, runErrOf]; done)
    | (refine ResInv_live2 s _ _ _ h rfl ?_ ?_ ?_ rfl ?_ <;>
         simp [*, summRun, C05.upd, summOf, killedOf, runErrOf]; done)
    | (refine ResInv_finish _ _ _ h ?_ ?_ <;>
         simp [*, EndOk, summRun, C05.upd, summOf, killedOf, runErrOf, C05.expectedOf]; done)
    | (refine ResInv_finish' s _ _ [] _ h ?_ ?_ ?_ <;>
         simp [*, EndOk, summRun, C05.upd, summOf, killedOf, runErrOf, C05.expectedOf]; done)
    | (refine ResInv_finish' s _ _ [Ev.runPoll s.runIdx] _ h ?_ rfl ?_ <;>
         simp [*, EndOk, summRun, C05.upd, summOf, killedOf, runErrOf, C05.expectedOf]; done)
    | (have hh := h.2.2 (by simp [*])
       refine ResInv_live s _ _ h rfl ?_ ?_ ?_ rfl ?_ <;>
         simp [*, summRun, C05.upd, summOf, killedOf, runErrOf]; done)
    | trace_state

end Rsactor.Model
