/- C01/C02 core: the mailbox is the not-yet-taken suffix of the acceptance log, and handler starts
   are exactly the envelopes of the taken prefix, in order. -/
import Rsactor.Inv.Tactics
import Rsactor.Monitor

namespace Rsactor.Model
open Rsactor.Monitor

def envIds (l : List Item) : List Nat := l.filterMap fun | .env m _ => some m | _ => none

def FifoInv (s : Sys) : Prop :=
  s.taken ≤ s.accepted.length ∧
  (s.rxOpen = true → s.mbox = s.accepted.drop s.taken) ∧
  (s.rxOpen = false → s.mbox = []) ∧
  startedMids s.ev = envIds (s.accepted.take s.taken)

def noStart : Ev → Bool
  | .handlerStart _ => false
  | _ => true

theorem started_append (a b : List Ev) : startedMids (a ++ b) = startedMids a ++ startedMids b := by
  simp [startedMids, List.filterMap_append]

theorem started_neutral (chunk : List Ev) (hn : chunk.all noStart = true) : startedMids chunk = [] := by
  induction chunk with
  | nil => rfl
  | cons e es ih =>
    simp only [List.all_cons, Bool.and_eq_true] at hn
    have := ih hn.2
    cases e <;> simp_all [startedMids, noStart]

/-- updates that leave the mailbox bookkeeping alone and log no handler start -/
theorem FifoInv_neutral (s s' : Sys) (chunk : List Ev) (h : FifoInv s)
    (hev : s'.ev = s.ev ++ chunk) (hm : s'.mbox = s.mbox) (ha : s'.accepted = s.accepted)
    (ht : s'.taken = s.taken) (hr : s'.rxOpen = s.rxOpen) (hn : chunk.all noStart = true) : FifoInv s' := by
  obtain ⟨h1, h2, h3, h4⟩ := h
  refine ⟨by rw [ha, ht]; exact h1, by rw [hr, hm, ha, ht]; exact h2, by rw [hr, hm]; exact h3, ?_⟩
  rw [hev, started_append, started_neutral _ hn, ha, ht, h4]; simp

theorem FifoInv_of_eq {s s' : Sys} (h : FifoInv s) (hev : s'.ev = s.ev) (hm : s'.mbox = s.mbox)
    (ha : s'.accepted = s.accepted) (ht : s'.taken = s.taken) (hr : s'.rxOpen = s.rxOpen) : FifoInv s' :=
  FifoInv_neutral s s' [] h (by simp [hev]) hm ha ht hr rfl

theorem FifoInv_neutral2 (s s' : Sys) (c1 c2 : List Ev) (h : FifoInv s)
    (hev : s'.ev = (s.ev ++ c1) ++ c2) (hm : s'.mbox = s.mbox) (ha : s'.accepted = s.accepted)
    (ht : s'.taken = s.taken) (hr : s'.rxOpen = s.rxOpen)
    (h1 : c1.all noStart = true) (h2 : c2.all noStart = true) : FifoInv s' :=
  FifoInv_neutral s s' (c1 ++ c2) h (by rw [hev, List.append_assoc]) hm ha ht hr
    (by simp [List.all_append, h1, h2])

theorem FifoInv_complete (s : Sys) (oid : Nat) (r : Res) (why : Option Reason) (h : FifoInv s) :
    FifoInv (s.complete oid r why) := by
  cases why with
  | none => exact FifoInv_neutral s _ [Ev.ret oid r s.clock] h (by simp [complete_ev]) rfl rfl rfl rfl rfl
  | some w =>
    exact FifoInv_neutral s _ [Ev.dead oid w, Ev.ret oid r s.clock] h (by simp [complete_ev]) rfl rfl rfl rfl rfl

theorem FifoInv_failSend (s : Sys) (oid : Nat) (it : Item) (h : FifoInv s) : FifoInv (s.failSend oid it) := by
  cases it <;> exact FifoInv_complete _ _ _ _ h

/-- the receivers are dropped: the mailbox is emptied, nothing else in the bookkeeping moves -/
theorem FifoInv_finish (s : Sys) (o : Outcome) (evs : List Ev) (h : FifoInv s)
    (hn : evs.all noStart = true) : FifoInv (s.finish o evs) := by
  obtain ⟨h1, h2, h3, h4⟩ := h
  refine ⟨h1, by simp, by simp, ?_⟩
  simp only [finish_ev, finish_accepted, finish_taken, List.append_assoc, started_append,
    started_neutral _ hn, h4]
  simp [startedMids]

theorem FifoInv_afterStrand (s : Sys) (it : Item) (h : FifoInv s) : FifoInv (s.afterStrand it) := by
  have hb : FifoInv { s with stranded := s.stranded ++ [it] } := FifoInv_of_eq h rfl rfl rfl rfl rfl
  cases it with
  | env mid k =>
    cases k
    · exact FifoInv_complete _ _ _ _ hb
    · exact FifoInv_of_eq hb rfl rfl rfl rfl rfl
  | stop o => exact FifoInv_complete _ _ _ _ hb

theorem FifoInv_afterPush (s : Sys) (it : Item) (h : FifoInv s) (ho : s.rxOpen = true) :
    FifoInv (s.afterPush it) := by
  obtain ⟨h1, h2, h3, h4⟩ := h
  have hb : FifoInv { s with mbox := s.mbox ++ [it], accepted := s.accepted ++ [it],
                             ev := s.ev ++ [.accepted it.oid s.accepted.length] } := by
    refine ⟨by simp; omega, ?_, ?_, ?_⟩
    · intro _; simp only; rw [h2 ho, List.drop_append_of_le_length h1]
    · intro hc; simp only at hc; rw [ho] at hc; cases hc
    · simp only [started_append, List.take_append_of_le_length h1, h4]; simp [startedMids]
  cases it with
  | env mid k =>
    cases k
    · exact FifoInv_complete _ _ _ _ hb
    · exact FifoInv_of_eq hb rfl rfl rfl rfl rfl
  | stop o => exact FifoInv_complete _ _ _ _ hb

theorem take_succ_of_drop {α : Type} (l : List α) (n : Nat) (x : α) (rest : List α)
    (h : l.drop n = x :: rest) : l.take (n + 1) = l.take n ++ [x] ∧ l.drop (n + 1) = rest ∧ n < l.length := by
  induction l generalizing n with
  | nil => simp at h
  | cons y ys ih =>
    cases n with
    | zero => simp at h; obtain ⟨rfl, rfl⟩ := h; simp
    | succ n =>
      simp only [List.drop_succ_cons] at h
      obtain ⟨a, b, c⟩ := ih n h
      refine ⟨by simp [List.take_succ_cons, a], by simpa using b, by simp; omega⟩

theorem FifoInv_init (cap : Nat) (sc : Script) : FifoInv (init cap sc) := by
  simp [FifoInv, init, startedMids, envIds]

theorem FifoInv_step (s s' : Sys) (l : Label) (h : FifoInv s) (hs : step? s l = some s') : FifoInv s' := by
  step_cases l hs
  all_goals first
    | exact h
    | exact FifoInv_of_eq h rfl rfl rfl rfl rfl
    | exact FifoInv_neutral s _ _ h rfl rfl rfl rfl rfl rfl
    | exact FifoInv_neutral2 s _ _ _ h rfl rfl rfl rfl rfl rfl rfl
    | exact FifoInv_finish _ _ _ h rfl
    | exact FifoInv_finish _ _ _ (FifoInv_of_eq h rfl rfl rfl rfl rfl) rfl
    | exact FifoInv_finish _ _ _ (FifoInv_neutral s _ _ h rfl rfl rfl rfl rfl rfl) rfl
    | exact FifoInv_complete _ _ _ _ h
    | exact FifoInv_complete _ _ _ _ (FifoInv_of_eq h rfl rfl rfl rfl rfl)
    | exact FifoInv_complete _ _ _ _ (FifoInv_neutral s _ _ h rfl rfl rfl rfl rfl rfl)
    | exact FifoInv_failSend _ _ _ (FifoInv_of_eq h rfl rfl rfl rfl rfl)
    | exact FifoInv_failSend _ _ _ (FifoInv_neutral s _ _ h rfl rfl rfl rfl rfl rfl)
    | exact FifoInv_afterPush _ _ (FifoInv_of_eq h rfl rfl rfl rfl rfl) (by assumption)
    | exact FifoInv_afterStrand _ _ (FifoInv_of_eq h rfl rfl rfl rfl rfl)
    | (split <;> exact FifoInv_complete _ _ _ _ (FifoInv_neutral s _ _ h rfl rfl rfl rfl rfl rfl))
    | (rename_i heq _
       obtain ⟨h1, h2, h3, h4⟩ := h
       cases ho : s.rxOpen with
       | false => rw [h3 ho] at heq; cases heq
       | true =>
         have hd := h2 ho
         rw [heq] at hd
         obtain ⟨a, b, c⟩ := take_succ_of_drop _ _ _ _ hd.symm
         refine ⟨by simp; omega, ?_, ?_, ?_⟩
         · intro _; simp [b]
         · intro hc; simp at hc
         · show startedMids (s.ev ++ _) = envIds (List.take (s.taken + 1) s.accepted)
           rw [started_append, a, h4]; simp [envIds, startedMids, List.filterMap_append])
    | (rename_i heq
       obtain ⟨h1, h2, h3, h4⟩ := h
       cases ho : s.rxOpen with
       | false => rw [h3 ho] at heq; cases heq
       | true =>
         have hd := h2 ho
         rw [heq] at hd
         obtain ⟨a, b, c⟩ := take_succ_of_drop _ _ _ _ hd.symm
         refine ⟨by simp; omega, ?_, ?_, ?_⟩
         · intro _; simp [b]
         · intro hc; simp at hc
         · show startedMids (s.ev ++ [_]) = envIds (List.take (s.taken + 1) s.accepted)
           rw [started_append, a, h4]; simp [envIds, startedMids, List.filterMap_append])

end Rsactor.Model
