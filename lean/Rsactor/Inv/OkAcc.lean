/- A tell that is reported as `Ok` did go into the channel: it was accepted by the mailbox (event `accepted`)
   or - in the window after the actor dropped its receivers while the sender already held its permit - it lies in
   the closed channel.  This is the model-level statement behind the trace monitor `C09.okMeansAccepted`. -/
import Rsactor.Inv.Rej

namespace Rsactor.Model
open Rsactor.Monitor

def OkInv (s : Sys) : Prop :=
  ∀ oid a, Ev.ret oid .ok a ∈ s.ev → (s.spec oid).kind = .tell →
    (∃ i, Ev.accepted oid i ∈ s.ev) ∨ Item.env oid .tell ∈ s.stranded

def noOk : Ev → Bool
  | .ret _ .ok _ => false
  | _ => true

/-- the history grew by events that are not an `Ok` return; specs as before; the closed channel only grew -/
theorem OkInv_grow (s s' : Sys) (chunk : List Ev) (extra : List Item) (h : OkInv s)
    (hev : s'.ev = s.ev ++ chunk) (hn : chunk.all noOk = true) (hsp : s'.spec = s.spec)
    (hst : s'.stranded = s.stranded ++ extra) : OkInv s' := by
  intro oid a hm hk
  rw [hev] at hm
  rw [hsp] at hk
  rcases List.mem_append.mp hm with hm | hm
  · rcases h oid a hm hk with ⟨i, hi⟩ | hs
    · exact Or.inl ⟨i, by rw [hev]; exact List.mem_append_left _ hi⟩
    · exact Or.inr (by rw [hst]; exact List.mem_append_left _ hs)
  · have := List.all_eq_true.mp hn _ hm
    simp [noOk] at this

theorem OkInv_neutral (s s' : Sys) (chunk : List Ev) (h : OkInv s)
    (hev : s'.ev = s.ev ++ chunk) (hn : chunk.all noOk = true) (hsp : s'.spec = s.spec)
    (hst : s'.stranded = s.stranded) : OkInv s' :=
  OkInv_grow s s' chunk [] h hev hn hsp (by simp [hst])

theorem OkInv_of_eq {s s' : Sys} (h : OkInv s) (hev : s'.ev = s.ev) (hsp : s'.spec = s.spec)
    (hst : s'.stranded = s.stranded) : OkInv s' :=
  OkInv_neutral s s' [] h (by simp [hev]) rfl hsp hst

theorem OkInv_neutral2 (s s' : Sys) (c1 c2 : List Ev) (h : OkInv s)
    (hev : s'.ev = (s.ev ++ c1) ++ c2) (h1 : c1.all noOk = true) (h2 : c2.all noOk = true)
    (hsp : s'.spec = s.spec) (hst : s'.stranded = s.stranded) : OkInv s' :=
  OkInv_neutral s s' (c1 ++ c2) h (by rw [hev, List.append_assoc]) (by simp [List.all_append, h1, h2]) hsp hst

theorem OkInv_finish (s : Sys) (o : Outcome) (evs : List Ev) (h : OkInv s) (hn : evs.all noOk = true) :
    OkInv (s.finish o evs) :=
  OkInv_neutral s _ (evs ++ [.joined o]) h (by simp) (by simp [hn, noOk]) rfl rfl

/-- an operation completes with anything but `Ok` -/
theorem OkInv_complete (s : Sys) (oid : Nat) (r : Res) (why : Option Reason) (h : OkInv s) (hr : r ≠ .ok) :
    OkInv (s.complete oid r why) := by
  cases why with
  | none =>
    exact OkInv_neutral s _ [Ev.ret oid r s.clock] h (by simp) (by cases r <;> simp_all [noOk]) rfl rfl
  | some w =>
    exact OkInv_neutral s _ [Ev.dead oid w, Ev.ret oid r s.clock] h (by simp) (by cases r <;> simp_all [noOk]) rfl rfl

/-- an operation that is not a tell completes with `Ok` -/
theorem OkInv_completeOk (s : Sys) (oid : Nat) (h : OkInv s) (hk : (s.spec oid).kind ≠ .tell) :
    OkInv (s.complete oid .ok none) := by
  intro o a hm hkk
  simp only [complete_ev, List.append_nil, List.mem_append, List.mem_singleton] at hm
  simp only [complete_spec] at hkk
  rcases hm with hm | hm
  · rcases h o a hm hkk with ⟨i, hi⟩ | hs
    · exact Or.inl ⟨i, by simp [hi]⟩
    · exact Or.inr hs
  · cases hm
    exact absurd hkk hk

/-- a tell completes with `Ok` after its `accepted` event -/
theorem OkInv_completeAccepted (s : Sys) (oid i : Nat) (h : OkInv s) (hacc : Ev.accepted oid i ∈ s.ev) :
    OkInv (s.complete oid .ok none) := by
  intro o a hm hkk
  simp only [complete_ev, List.append_nil, List.mem_append, List.mem_singleton] at hm
  simp only [complete_spec] at hkk
  rcases hm with hm | hm
  · rcases h o a hm hkk with ⟨j, hj⟩ | hs
    · exact Or.inl ⟨j, by simp [hj]⟩
    · exact Or.inr hs
  · cases hm
    exact Or.inl ⟨i, by simp [hacc]⟩

/-- a tell completes with `Ok` while its item lies in the closed channel -/
theorem OkInv_completeStranded (s : Sys) (oid : Nat) (h : OkInv s) (hst : Item.env oid .tell ∈ s.stranded) :
    OkInv (s.complete oid .ok none) := by
  intro o a hm hkk
  simp only [complete_ev, List.append_nil, List.mem_append, List.mem_singleton] at hm
  simp only [complete_spec] at hkk
  rcases hm with hm | hm
  · rcases h o a hm hkk with ⟨j, hj⟩ | hs
    · exact Or.inl ⟨j, by simp [hj]⟩
    · exact Or.inr hs
  · cases hm
    exact Or.inr hst

theorem opItem_stop {oid x : Nat} {k : OpKind} (h : opItem oid k = some (.stop x)) : k = .stop := by
  cases k <;> simp [opItem] at h <;> rfl

theorem opItem_none {oid : Nat} {k : OpKind} (h : opItem oid k = none) : k = .kill := by
  cases k <;> simp [opItem] at h <;> rfl

theorem OkInv_failSend (s : Sys) (oid : Nat) (it : Item) (h : OkInv s)
    (hit : opItem oid (s.spec oid).kind = some it) : OkInv (s.failSend oid it) := by
  cases it with
  | env m k => simp only [Sys.failSend]; exact OkInv_complete _ _ _ _ h nofun
  | stop x =>
    simp only [Sys.failSend]
    exact OkInv_completeOk _ _ h (by rw [opItem_stop hit]; nofun)

/-- the state right after `issue` allocated the id: older operations keep their specs -/
theorem OkInv_issue (s : Sys) (op : OpSpec) (h : OkInv s) (hi : IdsInv s) : OkInv (issueBase s op) := by
  intro oid a hm hk
  simp only [issueBase, List.mem_append, List.mem_singleton] at hm
  rcases hm with hm | hm
  · have hlt := hi.retLt oid .ok a hm
    have hne : oid ≠ s.nextOid := by omega
    simp only [issueBase, setF, hne, if_false] at hk
    rcases h oid a hm hk with ⟨i, hi'⟩ | hs
    · exact Or.inl ⟨i, by simp [issueBase, hi']⟩
    · exact Or.inr hs
  · cases hm

theorem OkInv_waiters {s : Sys} (h : OkInv s) (ws : List Waiter) (c : Nat → CSt) :
    OkInv { s with waiters := ws, client := c } := OkInv_of_eq h rfl rfl rfl

theorem OkInv_afterPush (s : Sys) (w : Waiter) (h : OkInv s) (hi : IdsInv s) (hw : w ∈ s.waiters) :
    OkInv ({ s with waiters := s.waiters.erase w }.afterPush w.item) := by
  have hk := hi.wOk (w.oid, w.item) (by simp only [wkeys, List.mem_map]; exact ⟨w, hw, rfl⟩)
  obtain ⟨k1, _, _, k4⟩ := hk
  simp only at k1 k4
  cases hit : w.item with
  | env m kind =>
    cases kind with
    | tell =>
      simp only [Sys.afterPush]
      refine OkInv_completeAccepted _ m s.accepted.length ?_ (by simp [Item.oid])
      exact OkInv_neutral s _ [Ev.accepted m s.accepted.length] h (by simp [Item.oid]) rfl rfl rfl
    | ask =>
      simp only [Sys.afterPush]
      exact OkInv_neutral s _ [Ev.accepted m s.accepted.length] h (by simp [Item.oid]) rfl rfl rfl
  | stop x =>
    simp only [Sys.afterPush]
    rw [hit] at k1 k4
    have hx : x = w.oid := by simpa [Item.oid] using k1
    refine OkInv_completeOk _ x ?_ ?_
    · exact OkInv_neutral s _ [Ev.accepted x s.accepted.length] h (by simp [Item.oid]) rfl rfl rfl
    · simp only; rw [hx, opItem_stop k4]; nofun

theorem OkInv_afterStrand (s : Sys) (w : Waiter) (h : OkInv s) (hi : IdsInv s) (hw : w ∈ s.waiters) :
    OkInv ({ s with waiters := s.waiters.erase w }.afterStrand w.item) := by
  have hk := hi.wOk (w.oid, w.item) (by simp only [wkeys, List.mem_map]; exact ⟨w, hw, rfl⟩)
  obtain ⟨k1, _, _, k4⟩ := hk
  simp only at k1 k4
  cases hit : w.item with
  | env m kind =>
    cases kind with
    | tell =>
      simp only [Sys.afterStrand]
      refine OkInv_completeStranded _ m ?_ (by simp)
      exact OkInv_grow s _ [] [Item.env m .tell] h (by simp) rfl rfl rfl
    | ask =>
      simp only [Sys.afterStrand]
      exact OkInv_grow s _ [] [Item.env m .ask] h (by simp) rfl rfl rfl
  | stop x =>
    simp only [Sys.afterStrand]
    rw [hit] at k1 k4
    have hx : x = w.oid := by simpa [Item.oid] using k1
    refine OkInv_completeOk _ x ?_ ?_
    · exact OkInv_grow s _ [] [Item.stop x] h (by simp) rfl rfl rfl
    · simp only; rw [hx, opItem_stop k4]; nofun

theorem OkInv_init (cap : Nat) (sc : Script) : OkInv (init cap sc) := by
  intro o a h; simp [init] at h

theorem OkInv_step (s s' : Sys) (l : Label) (h : OkInv s) (hi : IdsInv s)
    (hs : step? s l = some s') : OkInv s' := by
  cases l with
  | issue hd op =>
    simp only [step?, Sys.issue] at hs
    have hb := OkInv_issue s op h hi
    split at hs
    · split at hs
      · rename_i hnone
        cases hs
        have hk : ((issueBase s op).spec s.nextOid).kind ≠ .tell := by
          simp only [issueBase, setF, if_true]; rw [opItem_none hnone]; nofun
        split
        · exact OkInv_completeOk _ _ (OkInv_of_eq hb rfl rfl rfl) hk
        · exact OkInv_completeOk _ _ hb hk
      · rename_i it hit
        split at hs
        · cases hs
          exact OkInv_failSend _ _ _ hb (by simpa [issueBase, setF] using hit)
        · split at hs <;> cases hs <;> exact OkInv_of_eq hb rfl rfl rfl
    · cases hs
  | grantWake oid =>
    simp only [step?] at hs
    split at hs
    · rename_i w hf
      obtain ⟨hw, hq⟩ := find_waiter hf
      have hwo : w.oid = oid := by simp at hq; exact hq.1
      have hk := hi.wOk (w.oid, w.item) (by simp only [wkeys, List.mem_map]; exact ⟨w, hw, rfl⟩)
      split at hs
      · cases hs
        exact OkInv_failSend _ _ _ (OkInv_of_eq h rfl rfl rfl) (hwo ▸ hk.2.2.2)
      · split at hs
        · cases hs; exact OkInv_of_eq h rfl rfl rfl
        · cases hs
    · cases hs
  | push oid =>
    simp only [step?] at hs
    split at hs
    · rename_i w hf
      obtain ⟨hw, _⟩ := find_waiter hf
      split at hs <;> cases hs
      · exact OkInv_afterPush s w h hi hw
      · exact OkInv_afterStrand s w h hi hw
    · cases hs
  | timeoutFire oid =>
    simp only [step?] at hs
    (repeat' split at hs) <;> (try cases hs)
    all_goals first
      | exact OkInv_complete _ _ _ _ (OkInv_of_eq h rfl rfl rfl) nofun
      | exact OkInv_complete _ _ _ _ h nofun
  | recvReply oid =>
    simp only [step?] at hs
    (repeat' split at hs) <;> (try cases hs)
    all_goals exact OkInv_complete _ _ _ _ h nofun
  | pollMail =>
    simp only [step?] at hs
    (repeat' split at hs) <;> (try cases hs)
    all_goals first
      | exact OkInv_of_eq h rfl rfl rfl
      | exact OkInv_neutral s _ _ h rfl rfl rfl rfl
  | _ =>
    simp only [step?, Sys.runStep] at hs
    (repeat' split at hs) <;> (try cases hs)
    all_goals first
      | exact h
      | exact OkInv_of_eq h rfl rfl rfl
      | exact OkInv_neutral s _ _ h rfl rfl rfl rfl
      | exact OkInv_neutral2 s _ _ _ h rfl rfl rfl rfl rfl
      | exact OkInv_finish _ _ _ h rfl
      | exact OkInv_finish _ _ _ (OkInv_of_eq h rfl rfl rfl) rfl
      | exact OkInv_finish _ _ _ (OkInv_neutral s _ _ h rfl rfl rfl rfl) rfl

/-- in every reachable state -/
theorem ok_run (cap : Nat) (sc : Script) (ls : List Label) (s : Sys)
    (hr : run? (init cap sc) ls = some s) : OkInv s :=
  (run_inv (P := fun s => IdsInv s ∧ OkInv s)
    (fun s s' l ⟨hi, hj⟩ hs => ⟨IdsInv_step s s' l hi hs, OkInv_step s s' l hj hi hs⟩)
    (init cap sc) s ls ⟨IdsInv_init cap sc, OkInv_init cap sc⟩ hr).2

end Rsactor.Model
