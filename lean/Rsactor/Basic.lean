/-
  Shared vocabulary used by the generated `Extracted.lean` and by the hand-written model.
  No imports beyond core: the driver must link as a `lean_exe`.
-/
namespace Rsactor

/-- The wait-for graph `HashMap<u64, Identity>` as an association list caller ↦ callee.
    Identities are modelled by their numeric id (the type name never takes part in a decision). -/
abbrev Graph := List (Nat × Nat)

/-- `HashMap::get` -/
def Graph.get? (g : Graph) (k : Nat) : Option Nat := (g.find? (·.1 == k)).map (·.2)

/-- `HashMap::remove` -/
def Graph.remove (g : Graph) (k : Nat) : Graph := g.filter (·.1 != k)

/-- `HashMap::insert` (replace) -/
def Graph.insert (g : Graph) (k v : Nat) : Graph := (g.remove k) ++ [(k, v)]

def Graph.keys (g : Graph) : List Nat := g.map (·.1)

def U64MAX : Nat := 18446744073709551615

/-- `u64::saturating_add` on naturals below 2^64 -/
def satAdd (a b : Nat) : Nat := Nat.min (a + b) U64MAX

/-- `u64::wrapping_add` -/
def wrapAdd (a b : Nat) : Nat := (a + b) % (U64MAX + 1)

/-! ### abstract syntax for the derive macros' decisions (C19) -/

/-- a path segment's identifier, as far as the macro looks at it: is it the identifier `Result` -/
inductive Ident | result | other
  deriving DecidableEq, Repr

/-- a handler's declared return type, as far as the macro looks at it: a path type (its segments) or
    anything else (tuple, reference, array, impl Trait, ...) -/
inductive RetTy | path (segs : List Ident) | other
  deriving DecidableEq, Repr

end Rsactor
