/-
  The labelled transition system for one rsactor actor with any number of clients and handles.

  * One label = one atomic action of one task (finer than a Tokio poll where Tokio itself is not
    atomic: the `select!` is split into pollTerm / pollMail / pollRun, a send is split into
    acquire (`issue` / `grantWake`) and `push`).
  * All nondeterminism is in the label list; `run?` rejects disabled labels, so a label list that
    `run?` accepts *is* a schedule of the system.
  * `ev` is an append-only ghost history; properties are stated on it.

  No imports beyond core (+ the generated `Extracted`): the driver links as a `lean_exe`.
-/
import Rsactor.Basic
import Rsactor.Extracted

namespace Rsactor.Model
open Rsactor.Extracted (FailurePhase ActorResult)

inductive Kind | tell | ask
  deriving DecidableEq, Repr, Inhabited

/-- scripted outcome of a message handler -/
inductive HOut | ok | panic
  deriving DecidableEq, Repr, Inhabited
/-- scripted outcome of on_start / on_stop -/
inductive SOut | ok | err | panic
  deriving DecidableEq, Repr, Inhabited
/-- scripted outcome of one on_run future -/
inductive ROut | cont | disable | err | panic
  deriving DecidableEq, Repr, Inhabited

/-- what sits in the mailbox; both forms embed a strong reference -/
inductive Item | env (mid : Nat) (k : Kind) | stop (oid : Nat)
  deriving DecidableEq, Repr, Inhabited

def Item.oid : Item → Nat
  | .env m _ => m
  | .stop o => o

/-- a sender inside `mpsc::Sender::send`: queued for a permit (`granted = false`), permit assigned but
    future not yet polled (`granted ∧ ¬acq`), or `reserve()` returned (`acq`) and the push is next -/
structure Waiter where
  oid : Nat
  item : Item
  granted : Bool
  acq : Bool
  deriving DecidableEq, Repr, Inhabited

inductive Res | ok | reply (mid : Nat) | send | timeout | receive
  deriving DecidableEq, Repr, Inhabited

inductive OpKind | tell | ask | stop | kill
  deriving DecidableEq, Repr, Inhabited

structure OpSpec where
  kind : OpKind
  timeout : Option Nat := none   -- `*_with_timeout` duration (virtual ms)
  hout : HOut := .ok             -- scripted handler outcome for this message
  deriving DecidableEq, Repr, Inhabited

inductive CSt | none | waiting | awaiting | done (r : Res)
  deriving DecidableEq, Repr, Inhabited

inductive RSt | none | pending | sent | dropped
  deriving DecidableEq, Repr, Inhabited

inductive Reason | actorStopped | timeout | replyDropped
  deriving DecidableEq, Repr, Inhabited

inductive ErrSrc | start | run | stop
  deriving DecidableEq, Repr, Inhabited

/-- the "actor instance": the log of hooks that ran on it -/
inductive Hook | start | handler (mid : Nat) | run (k : Nat) | stop (killed : Bool)
  deriving DecidableEq, Repr, Inhabited

/-- JoinHandle output: `none` = panic JoinError -/
abbrev Outcome := Option (ActorResult (List Hook) ErrSrc)

inductive Pc
  | starting
  | selTerm | selMail | selRun
  | parked
  | inHandler (mid : Nat) (k : Kind)
  | stopping (killed : Bool) (runErr : Bool) (marker : Bool)   -- marker: the dequeued stop marker (and its reference) is alive during on_stop
  | ended
  deriving DecidableEq, Repr, Inhabited

inductive Ev
  | issued (oid : Nat) (op : OpKind) (timeout : Option Nat) (at_ : Nat)
  | accepted (oid : Nat) (idx : Nat)
  | ret (oid : Nat) (r : Res) (at_ : Nat)
  | dead (oid : Nat) (why : Reason)
  | startEnd (out : SOut)
  | termConsumed
  | handlerStart (mid : Nat)
  | handlerEnd (mid : Nat) (out : HOut)
  | replySent (mid : Nat)
  | tellResult (mid : Nat)
  | runPoll (k : Nat)
  | runEnd (k : Nat) (out : ROut)
  | stopStart (killed : Bool)
  | stopEnd (out : SOut)
  | joined (o : Outcome)
  | handleNew (hid : Nat) (strong : Bool)
  | handleDrop (hid : Nat)
  | upgradeFailed (hid : Nat)
  | probeAlive (hid : Nat) (b : Bool)
  deriving DecidableEq, Repr

structure Script where
  startOut : SOut := .ok
  stopOut : SOut := .ok
  runOuts : List ROut := []      -- outcome of the k-th on_run future; beyond the list: `cont`
  deriving DecidableEq, Repr, Inhabited

structure Sys where
  cap : Nat
  script : Script
  mbox : List Item := []
  waiters : List Waiter := []
  stranded : List Item := []          -- pushed after the receiver was dropped: never handled, never dropped
  termSlot : Bool := false            -- the capacity-1 control channel
  rxOpen : Bool := true               -- both receivers alive and not closed
  pc : Pc := .starting
  idleEnabled : Bool := true
  runLive : Bool := false             -- the select holds a polled, not yet completed on_run future
  runIdx : Nat := 0                   -- number of on_run futures created so far
  gatePermits : Nat := 0
  taskRef : Bool := true              -- the lifecycle task's own strong reference (during on_start)
  handles : List (Nat × Bool) := [(0, true)]    -- (hid, strong?) owned by the environment
  nextHid : Nat := 1
  inflight : Nat := 0                 -- client operations in progress (each owns a clone of its handle)
  client : Nat → CSt := fun _ => .none
  spec : Nat → OpSpec := fun _ => default
  deadline : Nat → Option Nat := fun _ => none
  reply : Nat → RSt := fun _ => .none
  nextOid : Nat := 0
  clock : Nat := 0
  accepted : List Item := []          -- ghost: everything ever pushed into the mailbox, in order
  taken : Nat := 0                    -- ghost: number of items dequeued
  acceptedAtMail : Nat := 0           -- ghost: `accepted.length` at the last pollMail
  hooks : List Hook := []
  dead : List (Nat × Reason) := []
  msgCount : Nat := 0                 -- metrics: message_count (feature `metrics`)
  result : Option Outcome := none
  ev : List Ev := []

inductive Label
  | issue (h : Nat) (op : OpSpec)
  | grantWake (oid : Nat)
  | push (oid : Nat)
  | timeoutFire (oid : Nat)
  | recvReply (oid : Nat)
  | clone (h : Nat) | dropH (h : Nat) | downgrade (h : Nat) | upgrade (h : Nat)
  | probeAlive (h : Nat)
  | gate
  | advance (d : Nat)
  | startDone | pollTerm | pollMail | pollRun | wake | handlerDone | stopDone
  deriving DecidableEq, Repr

/-! ### helpers -/

def grantedCount (ws : List Waiter) : Nat := (ws.filter (·.granted)).length

/-- hand a freed permit to the first waiter that has none (Tokio's fair semaphore) -/
def grantFirst : List Waiter → List Waiter
  | [] => []
  | w :: ws => if w.granted then w :: grantFirst ws else { w with granted := true } :: ws

def setF {β : Type} (f : Nat → β) (k : Nat) (v : β) : Nat → β := fun x => if x = k then v else f x

/-- references held by the loop body itself: the `actor_ref` moved into the handler, or the
    dequeued `StopGracefully(ActorRef)` that the `_` pattern leaves alive while on_stop runs -/
def inHandlerRef : Pc → Nat
  | .inHandler _ _ => 1
  | .stopping _ _ true => 1
  | _ => 0

def strongHandles (hs : List (Nat × Bool)) : Nat := (hs.filter (·.2)).length

/-- number of live strong references (mailbox senders) -/
def Sys.strongCount (s : Sys) : Nat :=
  strongHandles s.handles + s.mbox.length + s.waiters.length + s.stranded.length +
  (if s.taskRef then 1 else 0) + inHandlerRef s.pc + s.inflight

def Sys.alive (s : Sys) : Bool := s.pc != .ended

/-- the actor's two receivers are dropped: queued envelopes are dropped with their reply senders -/
def dropReplies (mb : List Item) (r : Nat → RSt) : Nat → RSt :=
  fun m => if Item.env m .ask ∈ mb then .dropped else r m

def Sys.finish (s : Sys) (o : Outcome) (evs : List Ev) : Sys :=
  { s with pc := .ended, rxOpen := false, mbox := [], reply := dropReplies s.mbox s.reply,
           runLive := false, taskRef := false, result := some o, ev := s.ev ++ evs ++ [.joined o] }

def Sys.complete (s : Sys) (oid : Nat) (r : Res) (why : Option Reason) : Sys :=
  { s with client := setF s.client oid (.done r), inflight := s.inflight - 1,
           dead := match why with | some w => s.dead ++ [(oid, w)] | none => s.dead,
           ev := s.ev ++ (match why with | some w => [.dead oid w] | none => []) ++ [.ret oid r s.clock] }

def opItem (oid : Nat) : OpKind → Option Item
  | .tell => some (.env oid .tell)
  | .ask => some (.env oid .ask)
  | .stop => some (.stop oid)
  | .kill => none

/-- result of an operation whose send failed because the mailbox is closed -/
def Sys.failSend (s : Sys) (oid : Nat) (it : Item) : Sys :=
  match it with
  | .env _ _ => s.complete oid .send (some .actorStopped)
  | .stop _ => s.complete oid .ok none          -- stop() maps a closed mailbox to Ok

/-- only tell/ask have `*_with_timeout` variants -/
def opDeadline (clock : Nat) (op : OpSpec) : Option Nat :=
  match op.kind with
  | .tell => op.timeout.map (clock + ·)
  | .ask => op.timeout.map (clock + ·)
  | _ => none

def runOutAt (sc : Script) (k : Nat) : ROut := sc.runOuts.getD k .cont

/-! ### the step function -/

def Sys.issue (s : Sys) (h : Nat) (op : OpSpec) : Option Sys :=
  if (h, true) ∈ s.handles then
    let oid := s.nextOid
    let s : Sys := { s with nextOid := oid + 1, spec := setF s.spec oid op,
                            deadline := setF s.deadline oid (opDeadline s.clock op),
                            inflight := s.inflight + 1,
                            ev := s.ev ++ [.issued oid op.kind op.timeout s.clock] }
    match opItem oid op.kind with
    | none =>
      -- kill(): try_send on the control channel; Full and Closed are Ok
      let s : Sys := if s.rxOpen then { s with termSlot := true } else s
      some (s.complete oid .ok none)
    | some it =>
      if ¬ s.rxOpen then some (s.failSend oid it)
      else if s.mbox.length + grantedCount s.waiters < s.cap ∧ s.waiters.all (·.granted) then
        some { s with waiters := s.waiters ++ [⟨oid, it, true, true⟩], client := setF s.client oid .waiting }
      else
        some { s with waiters := s.waiters ++ [⟨oid, it, false, false⟩], client := setF s.client oid .waiting }
  else none

def Sys.afterPush (s : Sys) (it : Item) : Sys :=
  let idx := s.accepted.length
  let s : Sys := { s with mbox := s.mbox ++ [it], accepted := s.accepted ++ [it], ev := s.ev ++ [.accepted it.oid idx] }
  match it with
  | .env mid .tell => s.complete mid .ok none
  | .env mid .ask => { s with client := setF s.client mid .awaiting, reply := setF s.reply mid .pending }
  | .stop oid => s.complete oid .ok none

/-- an item pushed after the receivers were dropped: it stays in the channel forever -/
def Sys.afterStrand (s : Sys) (it : Item) : Sys :=
  let s : Sys := { s with stranded := s.stranded ++ [it] }
  match it with
  | .env mid .tell => s.complete mid .ok none
  | .env mid .ask => { s with client := setF s.client mid .awaiting, reply := setF s.reply mid .pending }
  | .stop oid => s.complete oid .ok none

/-- poll of the live on_run future: it waits for its gate, then completes with its scripted outcome -/
def Sys.runStep (s : Sys) : Option Sys :=
  if s.gatePermits = 0 then some { s with pc := .parked }
  else
    let k := s.runIdx - 1
    let s : Sys := { s with gatePermits := s.gatePermits - 1, runLive := false, hooks := s.hooks ++ [.run k] }
    match runOutAt s.script k with
    | .cont => some { s with pc := .selTerm, ev := s.ev ++ [.runEnd k .cont] }
    | .disable => some { s with pc := .selTerm, idleEnabled := false, ev := s.ev ++ [.runEnd k .disable] }
    | .err => some { s with pc := .stopping false true false, ev := s.ev ++ [.runEnd k .err, .stopStart false] }
    | .panic => some (s.finish none [.runEnd k .panic])

def step? (s : Sys) : Label → Option Sys
  | .issue h op => s.issue h op
  | .grantWake oid =>
    -- a queued sender is polled: closed → Err(Send); permit assigned → reserve() returns
    match s.waiters.find? (fun w => w.oid = oid ∧ ¬ w.acq) with
    | some w =>
      if ¬ s.rxOpen then
        some ({ s with waiters := s.waiters.erase w }.failSend oid w.item)
      else if w.granted then
        some { s with waiters := s.waiters.map (fun x => if x = w then { x with acq := true } else x) }
      else none
    | none => none
  | .push oid =>
    match s.waiters.find? (fun w => w.oid = oid ∧ w.acq) with
    | some w =>
      let s' : Sys := { s with waiters := s.waiters.erase w }
      if s.rxOpen then some (s'.afterPush w.item) else some (s'.afterStrand w.item)
    | none => none
  | .timeoutFire oid =>
    match s.deadline oid with
    | some d =>
      if s.clock < d then none else
      match s.client oid with
      | .waiting =>
        match s.waiters.find? (fun w => w.oid = oid) with
        | some w =>
          -- `tokio::time::timeout` polls the operation before the timer: a send whose permit has been
          -- assigned, or whose mailbox is closed, completes as itself instead of timing out
          if w.granted = true ∨ ¬ s.rxOpen then none else
          -- the send future is dropped while still queued for a permit
          some ({ s with waiters := s.waiters.erase w }.complete oid .timeout (some .timeout))
        | none => none
      | .awaiting =>
        -- likewise a reply that is there, or known to be lost, wins over the timer
        if s.reply oid = .sent ∨ s.reply oid = .dropped ∨ (¬ s.rxOpen ∧ Extracted.ask_wait_watches_closed = true) then none
        else some (s.complete oid .timeout (some .timeout))
      | _ => none
    | none => none
  | .recvReply oid =>
    match s.client oid with
    | .awaiting =>
      match s.reply oid with
      | .sent => some (s.complete oid (.reply oid) none)
      | .dropped => some (s.complete oid .receive (some .replyDropped))
      | _ =>
        -- Extracted.askWait = replyOrClosed: the wait also watches the mailbox being closed
        if ¬ s.rxOpen ∧ Extracted.ask_wait_watches_closed then
          some (s.complete oid .receive (some .replyDropped))
        else none
    | _ => none
  | .clone h =>
    match s.handles.find? (·.1 = h) with
    | some (_, st) => some { s with handles := s.handles ++ [(s.nextHid, st)], nextHid := s.nextHid + 1,
                                    ev := s.ev ++ [.handleNew s.nextHid st] }
    | none => none
  | .dropH h =>
    match s.handles.find? (·.1 = h) with
    | some p => some { s with handles := s.handles.erase p, ev := s.ev ++ [.handleDrop h] }
    | none => none
  | .downgrade h =>
    if (h, true) ∈ s.handles then
      some { s with handles := s.handles ++ [(s.nextHid, false)], nextHid := s.nextHid + 1,
                    ev := s.ev ++ [.handleNew s.nextHid false] }
    else none
  | .upgrade h =>
    if (h, false) ∈ s.handles then
      if s.strongCount > 0 then
        some { s with handles := s.handles ++ [(s.nextHid, true)], nextHid := s.nextHid + 1,
                      ev := s.ev ++ [.handleNew s.nextHid true] }
      else some { s with ev := s.ev ++ [.upgradeFailed h] }
    else none
  | .probeAlive h =>
    match s.handles.find? (·.1 = h) with
    | some (_, true) => some { s with ev := s.ev ++ [.probeAlive h s.rxOpen] }
    | some (_, false) => some { s with ev := s.ev ++ [.probeAlive h (decide (s.strongCount > 0))] }
    | none => none
  | .gate => some { s with gatePermits := s.gatePermits + 1 }
  | .advance d => some { s with clock := s.clock + d }
  | .startDone =>
    if s.pc = .starting ∧ 0 < s.gatePermits then
      let s : Sys := { s with gatePermits := s.gatePermits - 1 }
      match s.script.startOut with
      | .ok => some { s with pc := .selTerm, taskRef := false, hooks := [.start], ev := s.ev ++ [.startEnd .ok] }
      | .err => some (s.finish (some (.Failed none .start .OnStart false)) [.startEnd .err])
      | .panic => some (s.finish none [.startEnd .panic])
    else none
  | .pollTerm =>
    if s.pc = .selTerm then
      if s.termSlot then
        some { s with termSlot := false, pc := .stopping true false false, runLive := false,
                      ev := s.ev ++ [.termConsumed, .stopStart true] }
      else if s.strongCount = 0 then
        some { s with pc := .stopping false false false, runLive := false, ev := s.ev ++ [.stopStart false] }
      else some { s with pc := .selMail }
    else none
  | .pollMail =>
    if s.pc = .selMail then
      let s : Sys := { s with acceptedAtMail := s.accepted.length }
      match s.mbox with
      | [] =>
        if s.strongCount = 0 then
          -- the closed-mailbox arm looks at the control channel once more: a kill() that arrived after this pass
          -- polled it (pollTerm) wins
          if s.termSlot then
            some { s with termSlot := false, pc := .stopping true false false, runLive := false,
                          ev := s.ev ++ [.termConsumed, .stopStart true] }
          else
            some { s with pc := .stopping false false false, runLive := false, ev := s.ev ++ [.stopStart false] }
        else some { s with pc := .selRun }
      | .env mid k :: rest =>
        some { s with mbox := rest, taken := s.taken + 1, waiters := grantFirst s.waiters,
                      pc := .inHandler mid k, runLive := false, hooks := s.hooks ++ [.handler mid],
                      ev := s.ev ++ [.handlerStart mid] }
      | .stop _ :: rest =>
        -- likewise for the stop marker: it is dequeued, then the control channel is looked at once more
        if s.termSlot then
          some { s with mbox := rest, taken := s.taken + 1, waiters := grantFirst s.waiters, termSlot := false,
                        pc := .stopping true false true, runLive := false,
                        ev := s.ev ++ [.termConsumed, .stopStart true] }
        else
          some { s with mbox := rest, taken := s.taken + 1, waiters := grantFirst s.waiters,
                        pc := .stopping false false true, runLive := false, ev := s.ev ++ [.stopStart false] }
    else none
  | .pollRun =>
    if s.pc = .selRun then
      if ¬ s.idleEnabled then some { s with pc := .parked }
      else if s.runLive then s.runStep
      else
        -- first poll of a fresh future restarts the body
        Sys.runStep { s with runLive := true, runIdx := s.runIdx + 1, ev := s.ev ++ [.runPoll s.runIdx] }
    else none
  | .wake => if s.pc = .parked then some { s with pc := .selTerm } else none
  | .handlerDone =>
    match s.pc with
    | .inHandler mid k =>
      if 0 < s.gatePermits then
        let s : Sys := { s with gatePermits := s.gatePermits - 1, msgCount := s.msgCount + 1 }
        match (s.spec mid).hout with
        | .ok =>
          match k with
          | .tell => some { s with pc := .selTerm, ev := s.ev ++ [.handlerEnd mid .ok, .tellResult mid] }
          | .ask => some { s with pc := .selTerm, reply := setF s.reply mid .sent,
                                  ev := s.ev ++ [.handlerEnd mid .ok, .replySent mid] }
        | .panic =>
          let s : Sys := match k with
                   | .tell => s
                   | .ask => { s with reply := setF s.reply mid .dropped }
          some (s.finish none [.handlerEnd mid .panic])
      else none
    | _ => none
  | .stopDone =>
    match s.pc with
    | .stopping killed runErr _ =>
      if 0 < s.gatePermits then
        let s : Sys := { s with gatePermits := s.gatePermits - 1, hooks := s.hooks ++ [.stop killed] }
        match s.script.stopOut, runErr with
        | .ok, false => some (s.finish (some (.Completed s.hooks killed)) [.stopEnd .ok])
        | .ok, true => some (s.finish (some (.Failed (some s.hooks) .run .OnRun false)) [.stopEnd .ok])
        | .err, false => some (s.finish (some (.Failed (some s.hooks) .stop .OnStop killed)) [.stopEnd .err])
        | .err, true => some (s.finish (some (.Failed (some s.hooks) .run .OnRunThenOnStop false)) [.stopEnd .err])
        | .panic, _ => some (s.finish none [.stopEnd .panic])
      else none
    | _ => none

def run? (s : Sys) : List Label → Option Sys
  | [] => some s
  | l :: ls => match step? s l with
    | none => none
    | some s' => run? s' ls

def init (cap : Nat) (script : Script) : Sys := { cap, script }

end Rsactor.Model
