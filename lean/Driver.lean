/-
  Line-protocol driver: reads scripts on stdin, runs them on the model through `Exec`, prints
  the canonical events of every macro-step.  Imports only Mathlib-free modules (links as an exe).
-/
import Rsactor.Exec
import Rsactor.Tables

open Rsactor Rsactor.Model Rsactor.Exec

def showSOut : SOut → String | .ok => "ok" | .err => "err" | .panic => "panic"
def showHOut : HOut → String | .ok => "ok" | .panic => "panic"
def showROut : ROut → String | .cont => "cont" | .disable => "disable" | .err => "err" | .panic => "panic"
def showRes : Res → String
  | .ok => "ok" | .reply m => s!"reply:{m}" | .send => "send" | .timeout => "timeout" | .receive => "receive"
def showReason : Reason → String
  | .actorStopped => "actor_stopped" | .timeout => "timeout" | .replyDropped => "reply_dropped"
def showOp : OpKind → String | .tell => "tell" | .ask => "ask" | .stop => "stop" | .kill => "kill"
def showPhase : Extracted.FailurePhase → String
  | .OnStart => "OnStart" | .OnRun => "OnRun" | .OnStop => "OnStop" | .OnRunThenOnStop => "OnRunThenOnStop"
def showErr : ErrSrc → String | .start => "start" | .run => "run" | .stop => "stop"
def showHook : Hook → String
  | .start => "start" | .handler m => s!"h{m}" | .run k => s!"r{k}" | .stop k => s!"stop:{k}"
def showHooks (hs : List Hook) : String := ",".intercalate (hs.map showHook)
def showOutcome : Outcome → String
  | none => "panic"
  | some (.Completed a k) => s!"completed killed={k} actor=[{showHooks a}]"
  | some (.Failed a e p k) =>
    let a' := match a with | some hs => s!"[{showHooks hs}]" | none => "none"
    s!"failed phase={showPhase p} err={showErr e} killed={k} actor={a'}"

/-- (task key, text); key 0 = actor, 1 = handles/probes, oid+2 = client -/
def showEv (s : Sys) : Ev → Nat × String
  | .issued oid op t => (oid + 2, s!"C{oid} issued {showOp op}" ++ (match t with | some d => s!" timeout={d}" | none => ""))
  | .accepted oid idx => (oid + 2, s!"C{oid} accepted idx={idx}")
  | .ret oid r => (oid + 2, s!"C{oid} ret {showRes r}")
  | .dead oid w => (oid + 2, s!"C{oid} dead {showReason w} op={showOp (s.spec oid).kind}")
  | .startEnd o => (0, s!"A startEnd {showSOut o}")
  | .termConsumed => (0, "")
  | .handlerStart m => (0, s!"A handlerStart {m}")
  | .handlerEnd m o => (0, s!"A handlerEnd {m} {showHOut o}")
  | .replySent _ => (0, "")
  | .tellResult m => (0, s!"A tellResult {m}")
  | .runPoll k => (0, s!"A runPoll {k}")
  | .runEnd k o => (0, s!"A runEnd {k} {showROut o}")
  | .stopStart k => (0, s!"A stopStart killed={k}")
  | .stopEnd o => (0, s!"A stopEnd {showSOut o}")
  | .joined o => (0, s!"A joined {showOutcome o}")
  | .handleNew h st => (1, s!"H new {h} strong={st}")
  | .upgradeFailed h => (1, s!"H upgradeFailed {h}")
  | .probeAlive h b => (1, s!"H alive {h} {b}")

def insertSorted (x : Nat × String) : List (Nat × String) → List (Nat × String)
  | [] => [x]
  | y :: ys => if x.1 < y.1 then x :: y :: ys else y :: insertSorted x ys

/-- stable sort by task key -/
def canon (s : Sys) (evs : List Ev) : List String :=
  ((((evs.map (showEv s)).filter (·.2 ≠ "")).foldl (fun acc x => insertSorted x acc) []).map (·.2))

def parseSOut : String → Option SOut | "ok" => some .ok | "err" => some .err | "panic" => some .panic | _ => none
def parseHOut : String → Option HOut | "ok" => some .ok | "panic" => some .panic | _ => none
def parseROut : String → Option ROut
  | "c" => some .cont | "d" => some .disable | "e" => some .err | "p" => some .panic | _ => none

def kv (w : String) : Option (String × String) :=
  match w.splitOn "=" with
  | [k, v] => some (k, v)
  | _ => none

def words (line : String) : List String :=
  (line.trimAscii.toString.splitOn " ").filter (· ≠ "")

/-- one script operation applied to the model; `none` = malformed / not enabled -/
def applyOp (s : Sys) (ws : List String) : Option Sys :=
  let sendOp (kind : OpKind) (h out : String) (t : Option String) : Option Sys := do
    let h ← h.toNat?
    let o ← parseHOut out
    let t ← match t with | some x => (x.toNat?).map some | none => some none
    step? s (.issue h { kind, timeout := t, hout := o })
  match ws with
  | ["tell", h, out] => sendOp .tell h out none
  | ["ask", h, out] => sendOp .ask h out none
  | ["tellt", h, d, out] => sendOp .tell h out (some d)
  | ["askt", h, d, out] => sendOp .ask h out (some d)
  | ["stop", h] => sendOp .stop h "ok" none
  | ["kill", h] => sendOp .kill h "ok" none
  | ["clone", h] => h.toNat?.bind fun h => step? s (.clone h)
  | ["drop", h] => h.toNat?.bind fun h => step? s (.dropH h)
  | ["downgrade", h] => h.toNat?.bind fun h => step? s (.downgrade h)
  | ["upgrade", h] => h.toNat?.bind fun h => step? s (.upgrade h)
  | ["alive", h] => h.toNat?.bind fun h => step? s (.probeAlive h)
  | ["gate"] => if blockedAtGate s then step? s .gate else some s
  | ["tick"] => some s
  | _ => none

def parseSpawn (ws : List String) : Option Sys := do
  let mut cap := 0
  let mut sc : Script := {}
  for w in ws do
    match kv w with
    | some ("cap", v) => cap := (← v.toNat?)
    | some ("start", v) => sc := { sc with startOut := (← parseSOut v) }
    | some ("stop", v) => sc := { sc with stopOut := (← parseSOut v) }
    | some ("run", v) =>
      let rs ← (v.splitOn ",").filter (· ≠ "") |>.mapM parseROut
      sc := { sc with runOuts := rs }
    | _ => none
  if cap = 0 then none else some (init cap sc)

partial def loop (h : IO.FS.Stream) (st : Option Sys) : IO Unit := do
  let line ← h.getLine
  if line.isEmpty then return ()
  let ws := words line
  match ws with
  | [] => loop h st
  | "script" :: _ => IO.println s!"# {line.trimAscii.toString}"; loop h none
  | ["end"] => IO.println "# end"; loop h none
  | "spawn" :: rest =>
    match parseSpawn rest with
    | some s0 =>
      IO.println s!"> {line.trimAscii.toString}"
      let s1 := afterOp s0
      for l in canon s1 (s1.ev.drop s0.ev.length) do IO.println l
      IO.println "--"
      loop h (some s1)
    | none => IO.println "! bad-spawn"; loop h none
  | "tables" :: rest => Rsactor.Tables.run rest; loop h st
  | _ =>
    match st with
    | none => IO.println "! no-actor"; loop h st
    | some s =>
      IO.println s!"> {line.trimAscii.toString}"
      match applyOp s ws with
      | none => IO.println "! disabled"; IO.println "--"; loop h (some s)
      | some s1 =>
        let s2 := afterOp s1
        for l in canon s2 (s2.ev.drop s.ev.length) do IO.println l
        IO.println "--"
        loop h (some s2)

def main : IO Unit := do loop (← IO.getStdin) none
