/-
  Line-protocol driver: reads scripts on stdin, runs them on the model through `Exec`, prints
  the canonical events of every macro-step.  Imports only Mathlib-free modules (links as an exe).
-/
import Rsactor.Exec
import Rsactor.Tables
import Rsactor.Monitor
import Rsactor.Net
import Rsactor.Macro

open Rsactor Rsactor.Model Rsactor.Exec

def showSOut : SOut → String | .ok => "ok" | .err => "err" | .panic => "panic"
def showHOut : HOut → String | .ok => "ok" | .panic => "panic"
def showROut : ROut → String | .cont => "cont" | .disable => "disable" | .err => "err" | .panic => "panic"
def showRes : Res → String
  | .ok => "ok" | .reply m => s!"reply:{m}" | .send => "send" | .timeout => "timeout" | .receive => "receive"
def showReason : Reason → String
  | .actorStopped => "actor_stopped" | .timeout => "timeout" | .replyDropped => "reply_dropped"
def showOp : OpKind → String | .tell => "tell" | .ask => "ask" | .stop => "stop" | .kill => "kill"
def showPhase : Extracted.FailurePhase → String
  | .OnStart => "OnStart" | .OnRun => "OnRun" | .OnStop => "OnStop" | .OnRunThenOnStop => "OnRunThenOnStop"
def showErr : ErrSrc → String | .start => "start" | .run => "run" | .stop => "stop"
def showHook : Hook → String
  | .start => "start" | .handler m => s!"h{m}" | .run k => s!"r{k}" | .stop k => s!"stop:{k}"
def showHooks (hs : List Hook) : String := ",".intercalate (hs.map showHook)
def showOutcome : Outcome → String
  | none => "panic"
  | some (.Completed a k) => s!"completed killed={k} actor=[{showHooks a}]"
  | some (.Failed a e p k) =>
    let a' := match a with | some hs => s!"[{showHooks hs}]" | none => "none"
    s!"failed phase={showPhase p} err={showErr e} killed={k} actor={a'}"

/-- (task key, text); key 0 = actor, 1 = handles/probes, oid+2 = client -/
def showEv (s : Sys) : Ev → Nat × String
  | .issued oid op t a => (oid + 2, s!"C{oid} issued {showOp op}" ++ (match t with | some d => s!" timeout={d}" | none => "") ++ s!" @{a}")
  | .accepted oid idx => (oid + 2, s!"C{oid} accepted idx={idx}")
  | .ret oid r a => (oid + 2, s!"C{oid} ret {showRes r} @{a}")
  | .dead oid w => (oid + 2, s!"C{oid} dead {showReason w} op={showOp (s.spec oid).kind}")
  | .startEnd o => (0, s!"A startEnd {showSOut o}")
  | .termConsumed => (0, "")
  | .handlerStart m => (0, s!"A handlerStart {m}")
  | .handlerEnd m o => (0, s!"A handlerEnd {m} {showHOut o}")
  | .replySent _ => (0, "")
  | .tellResult m => (0, s!"A tellResult {m}")
  | .runPoll k => (0, s!"A runPoll {k}")
  | .runEnd k o => (0, s!"A runEnd {k} {showROut o}")
  | .stopStart k => (0, s!"A stopStart killed={k}")
  | .stopEnd o => (0, s!"A stopEnd {showSOut o}")
  | .joined o => (0, s!"A joined {showOutcome o}")
  | .handleNew h st => (1, s!"H new {h} strong={st}")
  | .handleDrop h => (1, s!"H drop {h}")
  | .upgradeFailed h => (1, s!"H upgradeFailed {h}")
  | .probeAlive h b => (1, s!"H alive {h} {b}")

def insertSorted (x : Nat × String) : List (Nat × String) → List (Nat × String)
  | [] => [x]
  | y :: ys => if x.1 < y.1 then x :: y :: ys else y :: insertSorted x ys

/-- stable sort by task key -/
def canon (s : Sys) (evs : List Ev) : List String :=
  ((((evs.map (showEv s)).filter (·.2 ≠ "")).foldl (fun acc x => insertSorted x acc) []).map (·.2))

def parseSOut : String → Option SOut | "ok" => some .ok | "err" => some .err | "panic" => some .panic | _ => none
def parseHOut : String → Option HOut | "ok" => some .ok | "panic" => some .panic | _ => none
def parseROut : String → Option ROut
  | "c" => some .cont | "d" => some .disable | "e" => some .err | "p" => some .panic | _ => none

def kv (w : String) : Option (String × String) :=
  match w.splitOn "=" with
  | [k, v] => some (k, v)
  | _ => none

def words (line : String) : List String :=
  (line.trimAscii.toString.splitOn " ").filter (· ≠ "")

/-- one script operation applied to the model; `none` = malformed / not enabled -/
def applyOp (s : Sys) (ws : List String) : Option Sys :=
  let sendOp (kind : OpKind) (h out : String) (t : Option String) : Option Sys := do
    let h ← h.toNat?
    let o ← parseHOut out
    let t ← match t with | some x => (x.toNat?).map some | none => some none
    step? s (.issue h { kind, timeout := t, hout := o })
  match ws with
  | ["tell", h, out] => sendOp .tell h out none
  | ["ask", h, out] => sendOp .ask h out none
  | ["tellt", h, d, out] => sendOp .tell h out (some d)
  | ["askt", h, d, out] => sendOp .ask h out (some d)
  | ["stop", h] => sendOp .stop h "ok" none
  | ["kill", h] => sendOp .kill h "ok" none
  | ["clone", h] => h.toNat?.bind fun h => step? s (.clone h)
  | ["drop", h] => h.toNat?.bind fun h => step? s (.dropH h)
  | ["downgrade", h] => h.toNat?.bind fun h => step? s (.downgrade h)
  | ["upgrade", h] => h.toNat?.bind fun h => step? s (.upgrade h)
  | ["alive", h] => h.toNat?.bind fun h => step? s (.probeAlive h)
  | ["gate"] => if blockedAtGate s then step? s .gate else some s
  -- a permit nobody is waiting for yet: the next hook that reaches its gate does not suspend
  | ["pregate"] => step? s .gate
  | ["tick"] => some s
  -- real time passes on the harness side (metrics oracle); nothing happens
  | ["stall"] => some s
  | _ => none

def parseSpawn (ws : List String) : Option Sys := do
  let mut cap := 0
  let mut sc : Script := {}
  for w in ws do
    match kv w with
    | some ("cap", v) => cap := (← v.toNat?)
    | some ("start", v) => sc := { sc with startOut := (← parseSOut v) }
    | some ("stop", v) => sc := { sc with stopOut := (← parseSOut v) }
    | some ("run", v) =>
      let rs ← (v.splitOn ",").filter (· ≠ "") |>.mapM parseROut
      sc := { sc with runOuts := rs }
    | _ => none
  if cap = 0 then none else some (init cap sc)


/-! ### monitor mode: evaluate the `Monitor` predicates on real traces -/

def parseHook (w : String) : Option Hook :=
  if w == "start" then some .start
  else if w.startsWith "stop:" then (match (w.drop 5).toString with | "true" => some (.stop true) | "false" => some (.stop false) | _ => none)
  else if w.startsWith "h" then ((w.drop 1).toString.toNat?).map .handler
  else if w.startsWith "r" then ((w.drop 1).toString.toNat?).map .run
  else none

def parseHooks (w : String) : Option (Option (List Hook)) :=
  if w == "none" then some none
  else if w.startsWith "[" && w.endsWith "]" then
    let inner := ((w.drop 1).toString.dropEnd 1).toString
    if inner == "" then some (some []) else ((inner.splitOn ",").mapM parseHook).map some
  else none

def parseBool : String → Option Bool | "true" => some true | "false" => some false | _ => none

def parsePhase : String → Option Extracted.FailurePhase
  | "OnStart" => some .OnStart | "OnRun" => some .OnRun | "OnStop" => some .OnStop
  | "OnRunThenOnStop" => some .OnRunThenOnStop | _ => none

def parseErr : String → Option ErrSrc | "start" => some .start | "run" => some .run | "stop" => some .stop | _ => none

def field (ws : List String) (k : String) : Option String :=
  ws.findSome? fun w => match kv w with | some (k', v) => if k' == k then some v else none | none => none

def parseOutcome (ws : List String) : Option Outcome :=
  match ws with
  | ["panic"] => some none
  | "completed" :: rest => do
    let k ← (field rest "killed").bind parseBool
    let a ← (field rest "actor").bind parseHooks
    let a ← a
    some (some (.Completed a k))
  | "failed" :: rest => do
    let k ← (field rest "killed").bind parseBool
    let a ← (field rest "actor").bind parseHooks
    let p ← (field rest "phase").bind parsePhase
    let e ← (field rest "err").bind parseErr
    some (some (.Failed a e p k))
  | _ => none

def parseRes (w : String) : Option Res :=
  match w with
  | "ok" => some .ok | "send" => some .send | "timeout" => some .timeout | "receive" => some .receive
  | _ => if w.startsWith "reply:" then ((w.drop 6).toString.toNat?).map .reply else none

def parseAt (w : String) : Option Nat := if w.startsWith "@" then (w.drop 1).toString.toNat? else none

def parseOpKind : String → Option OpKind
  | "tell" => some .tell | "ask" => some .ask | "stop" => some .stop | "kill" => some .kill | _ => none

def parseReason : String → Option Reason
  | "actor_stopped" => some .actorStopped | "timeout" => some .timeout | "reply_dropped" => some .replyDropped | _ => none

def parseEv (ws : List String) : Option Ev :=
  match ws with
  | ["A", "startEnd", o] => (parseSOut o).map .startEnd
  | ["A", "handlerStart", m] => m.toNat?.map .handlerStart
  | ["A", "handlerEnd", m, o] => do some (.handlerEnd (← m.toNat?) (← parseHOut o))
  | ["A", "tellResult", m] => m.toNat?.map .tellResult
  | ["A", "runPoll", k] => k.toNat?.map .runPoll
  | ["A", "runEnd", k, o] => do
    let o ← match o with | "cont" => some ROut.cont | "disable" => some .disable | "err" => some .err | "panic" => some .panic | _ => none
    some (.runEnd (← k.toNat?) o)
  | ["A", "stopStart", k] => ((kv k).bind fun p => parseBool p.2).map .stopStart
  | ["A", "stopEnd", o] => (parseSOut o).map .stopEnd
  | "A" :: "joined" :: rest => (parseOutcome rest).map .joined
  | ["H", "new", h, st] => do some (.handleNew (← h.toNat?) (← (kv st).bind fun p => parseBool p.2))
  | ["H", "drop", h] => h.toNat?.map .handleDrop
  | ["H", "upgradeFailed", h] => h.toNat?.map .upgradeFailed
  | ["H", "alive", h, b] => do some (.probeAlive (← h.toNat?) (← parseBool b))
  -- a dead letter recorded outside any operation of the script (e.g. by the actor task itself): it belongs
  -- to no failing return; the sentinel id makes the pairing monitors see it
  | "H" :: "dead-by-unknown" :: w :: _ => (parseReason w).map (.dead 4000000000)
  | c :: rest =>
    if c.startsWith "C" then do
      let oid ← (c.drop 1).toString.toNat?
      match rest with
      | ["issued", k, a] => some (.issued oid (← parseOpKind k) none (← parseAt a))
      | ["issued", k, t, a] => some (.issued oid (← parseOpKind k) (← (kv t).bind fun p => p.2.toNat?) (← parseAt a))
      | ["accepted", i] => some (.accepted oid (← (kv i).bind fun p => p.2.toNat?))
      | ["ret", r, a] => some (.ret oid (← parseRes r) (← parseAt a))
      | "dead" :: w :: _ => some (.dead oid (← parseReason w))
      | _ => none
    else none
  | [] => none

def monitorsFor (names : List String) (settled : Bool) : List (String × (Monitor.Trace → Bool)) :=
  let all : List (String × (Monitor.Trace → Bool)) :=
    [("C01", Monitor.C01.ok), ("C02", Monitor.C02.ok), ("C03", if settled then Monitor.C03.okSettled else Monitor.C03.ok), ("C04", Monitor.C04.ok),
     ("C05", Monitor.C05.ok), ("C06", if settled then Monitor.C06.okSettled else Monitor.C06.okAtomic),
     ("C07", if settled then Monitor.C07.okSettled else Monitor.C07.ok),
     ("C08", Monitor.C08.ok), ("C09", Monitor.C09.ok), ("C10", Monitor.C10.ok), ("C11", Monitor.C11.ok),
     ("C13", Monitor.C13.ok), ("C19", Monitor.C19.ok)]
  all.filter fun p => names.contains p.1

partial def monitorLoop (h : IO.FS.Stream) (names : List String) (cur : Option (String × Bool × Nat × List Ev))
    (ntr nfail nev : Nat) : IO Unit := do
  let line ← h.getLine
  if line.isEmpty then
    IO.println s!"monitor-summary traces={ntr} events={nev} fails={nfail}"
    return ()
  let ws := words line
  match ws, cur with
  | "trace" :: name :: rest, _ => monitorLoop h names (some (name, rest.contains "settled", 0, [])) ntr nfail nev
  | "spawn" :: rest, some (name, st, _, evs) =>
    let cap := ((field rest "cap").bind (·.toNat?)).getD 0
    monitorLoop h names (some (name, st, cap, evs)) ntr nfail nev
  | ["endtrace"], some (name, st, cap, evs) =>
    let t : Monitor.Trace := { cap, ev := evs.reverse }
    let mut nf := nfail
    for (mn, f) in monitorsFor names st do
      if !(f t) then
        IO.println s!"FAIL {mn} {name}"
        nf := nf + 1
    monitorLoop h names none (ntr + 1) nf (nev + evs.length)
  | [], _ => monitorLoop h names cur ntr nfail nev
  | w :: _, some (name, st, cap, evs) =>
    if w == ">" || w == "--" || w == "!" then monitorLoop h names cur ntr nfail nev
    else
      match parseEv ws with
      | some e => monitorLoop h names (some (name, st, cap, e :: evs)) ntr nfail nev
      | none =>
        IO.println s!"PARSE-ERROR {name}: {line.trimAscii.toString}"
        monitorLoop h names cur ntr (nfail + 1) nev
  | _, none => monitorLoop h names cur ntr nfail nev


/-! ### netreplay mode: replay real multi-actor histories on the wait-for protocol model -/

structure NR where
  net : Net.Net := {}
  mids : List (Nat × Nat) := []            -- message id of an actor-context ask ↦ its token in the model
  expectDl : List (Nat × List Nat) := []   -- deadlock panics the model decided, awaiting the real JoinHandle
  clients : List Nat := []                 -- client operations issued and not yet returned
  fails : List String := []
  labels : Nat := 0
  ideal : Bool := true    -- replay on the property's own reading of the protocol (edge gone once answered) rather than on the extracted switches

def NR.fail (r : NR) (m : String) : NR := { r with fails := r.fails ++ [m] }

def NR.tokOfMid (r : NR) (mid : Nat) : Option Nat := (r.mids.find? (·.1 == mid)).map (·.2)

def NR.stepf (r : NR) (n : Net.Net) (l : Net.NLabel) : Option Net.Net :=
  if r.ideal then Net.stepWith true true n l else Net.step? n l

def NR.apply (r : NR) (l : Net.NLabel) (what : String) : NR :=
  match r.stepf r.net l with
  | some n' => { r with net := n', labels := r.labels + 1 }
  | none => r.fail s!"the protocol model does not allow `{what}` here"

def NR.dieIfAlive (r : NR) (b : Nat) : NR :=
  if r.net.dead b then r else r.apply (.die b) s!"die {b}"

def showGraph (g : Graph) : String :=
  let es := g.map fun (a, b) => (a, b)
  let sorted := es.foldl (fun acc x => (acc.filter (fun y => y.1 < x.1 || (y.1 == x.1 && y.2 ≤ x.2))) ++ [x] ++
                                       (acc.filter (fun y => !(y.1 < x.1 || (y.1 == x.1 && y.2 ≤ x.2))))) []
  if sorted.isEmpty then "-" else ",".intercalate (sorted.map fun (a, b) => s!"{a}>{b}")

def nrLine (r : NR) (ws : List String) : NR :=
  match ws with
  | ["N", "askStart", a, b, mid] =>
    match a.toNat?, b.toNat?, mid.toNat? with
    | some a, some b, some mid =>
      match r.stepf r.net (.ask a b) with
      | none => r.fail s!"askStart {a} {b}: in the model actor {a} is dead or already awaits an ask (asks inside hooks are sequential)"
      | some n' =>
        let newEv := n'.ev.drop r.net.ev.length
        let dl := newEv.findSome? fun | .deadlock _ _ p => some p | _ => none
        let r := { r with net := n', labels := r.labels + 1 }
        match dl with
        | some p => { r with expectDl := r.expectDl ++ [(a, p)] }
        | none => if n'.nextTok > n'.nextTok - 1 && (n'.busy a).isSome
                  then { r with mids := (mid, n'.nextTok - 1) :: r.mids } else r
    | _, _, _ => r.fail "malformed askStart"
  | ["N", "hEnd", b, mid, out] =>
    match b.toNat?, mid.toNat? with
    | some b, some mid =>
      if out == "panic" then r.dieIfAlive b
      else match r.tokOfMid mid with
        | some t => r.apply (.reply t) s!"reply to ask {mid}"
        | none => r
    | _, _ => r.fail "malformed hEnd"
  | ["N", "askRet", _a, mid, res] =>
    match mid.toNat? with
    | some mid =>
      match r.tokOfMid mid with
      | none => if res == "wrongreply" then r.fail s!"ask {mid} returned another request's reply" else r
      | some t =>
        let st := (r.net.asks t).st
        if res == "ok" then r.apply (.resume t) s!"asker resumes with Ok for ask {mid}"
        else if res == "wrongreply" then r.fail s!"ask {mid} returned another request's reply"
        else if res == "receive" then
          let r := if st == .inflight then r.dieIfAlive (r.net.asks t).callee else r
          r.apply (.resume t) s!"asker resumes with Err(Receive) for ask {mid}"
        else r.apply (.giveUp t) s!"ask {mid} ends with {res}"
    | none => r.fail "malformed askRet"
  | "N" :: "joined" :: b :: out :: rest =>
    match b.toNat? with
    | some b =>
      if out == "deadlock" then
        let path := match rest with
          | [p] => (((p.drop 5).toString.splitOn ",").filterMap (·.toNat?))
          | _ => []
        match r.expectDl.find? (·.1 == b) with
        | some (_, p) =>
          let r := { r with expectDl := r.expectDl.filter (·.1 != b) }
          if p == path then r else r.fail s!"deadlock panic of actor {b}: the message names the cycle {path}, the model computes {p}"
        | none => r.fail s!"actor {b} panicked with `Deadlock detected` (cycle {path}) although no chain of unanswered in-flight asks closes there"
      else r.dieIfAlive b
    | none => r.fail "malformed joined"
  | ["N", "cissue", oid, _, _, _] => match oid.toNat? with | some o => { r with clients := o :: r.clients } | none => r
  | ["N", "cret", oid, res] =>
    match oid.toNat? with
    | some o =>
      let r := { r with clients := r.clients.filter (· != o) }
      if res == "wrongreply" then r.fail s!"client operation {o} returned another request's reply" else r
    | none => r
  | ["N", "graph", g] =>
    let mine := showGraph r.net.graph
    if mine == g then r else r.fail s!"wait-for graph: the real map is {g}, the model's is {mine}"
  | ["N", "poisoned", b] => if b == "true" then r.fail "the wait-for graph lock is poisoned" else r
  | ["N", "earlyTimeout", a, mid, el, d] => r.fail s!"ask {mid} of actor {a} returned Err(Timeout) after {el} ms, before its {d} ms deadline"
  | ["--"] =>
    match r.expectDl with
    | [] => r
    | (a, p) :: _ => { r with expectDl := [] }.fail s!"the ask of actor {a} closes the cycle {p}: a deadlock panic was due but did not happen"
  | _ => r

partial def netLoop (h : IO.FS.Stream) (cur : Option (String × NR × NR)) (ntr nfail ndiff nlab : Nat) : IO Unit := do
  let line ← h.getLine
  if line.isEmpty then
    IO.println s!"netreplay-summary histories={ntr} labels={nlab} fails={nfail} diffs={ndiff}"
    return ()
  let ws := words line
  match ws, cur with
  | ["trace", name], _ => netLoop h (some (name, { ideal := true }, { ideal := false })) ntr nfail ndiff nlab
  | ["endtrace"], some (name, r, ri) =>
    let r := if r.clients.isEmpty then r else r.fail s!"client operations {r.clients} never returned"
    for f in r.fails.take 3 do IO.println s!"NETFAIL {name} {f}"
    for f in ri.fails.take 3 do IO.println s!"NETDIFF {name} {f}"
    netLoop h none (ntr + 1) (nfail + (if r.fails.isEmpty then 0 else 1)) (ndiff + (if ri.fails.isEmpty then 0 else 1)) (nlab + r.labels)
  | _, some (name, r, ri) => netLoop h (some (name, nrLine r ws, nrLine ri ws)) ntr nfail ndiff nlab
  | _, none => netLoop h none ntr nfail ndiff nlab

/-- `macro <attr> <ret> <actualResult>`: what the derive macro decides for one handler (C19 corpus) -/
def macroLine (ws : List String) : String :=
  let attr : Option Macro.AttrForm :=
    match ws[0]? with
    | some "path" => some .path
    | some "nv" => some .nameValue
    | some a =>
      if a.startsWith "list:" then
        let body := (a.drop 5).toString
        let names := if body.isEmpty then [] else body.splitOn ","
        (names.mapM fun n => match n with
          | "r" => some Macro.OptName.result | "n" => some Macro.OptName.noLog | "u" => some Macro.OptName.unknown
          | _ => none).map .list
      else none
    | none => none
  let ret : Option (Option RetTy) :=
    match ws[1]? with
    | some "none" => some none
    | some "other" => some (some .other)
    | some r =>
      if r.startsWith "path:" then
        (((r.drop 5).toString.splitOn ".").mapM fun n => match n with
          | "r" => some Ident.result | "o" => some Ident.other | _ => none).map fun segs => some (.path segs)
      else none
    | none => none
  let actual : Option Bool := match ws[2]? with | some "true" => some true | some "false" => some false | _ => none
  match attr, ret, actual with
  | some a, some r, some b =>
    match Macro.decision a r b with
    | .compileError => "error"
    | .impl true => "log"
    | .impl false => "nolog"
  | _, _, _ => "bad-macro-line"

partial def loop (h : IO.FS.Stream) (st : Option Sys) : IO Unit := do
  let line ← h.getLine
  if line.isEmpty then return ()
  let ws := words line
  match ws with
  | [] => loop h st
  | "script" :: _ => IO.println s!"# {line.trimAscii.toString}"; loop h none
  | ["end"] => IO.println "# end"; loop h none
  | "spawn" :: rest =>
    match parseSpawn rest with
    | some s0 =>
      IO.println s!"> {line.trimAscii.toString}"
      let s1 := afterOp s0
      for l in canon s1 (s1.ev.drop s0.ev.length) do IO.println l
      IO.println "--"
      loop h (some s1)
    | none => IO.println "! bad-spawn"; loop h none
  | "tables" :: rest => Rsactor.Tables.run rest; loop h st
  | "macro" :: rest => IO.println (macroLine rest); loop h st
  | ["netreplay"] => netLoop h none 0 0 0 0
  | "monitor" :: names => monitorLoop h ((names.map (·.splitOn ",")).flatten) none 0 0 0
  | _ =>
    match st with
    | none => IO.println "! no-actor"; loop h st
    | some s =>
      IO.println s!"> {line.trimAscii.toString}"
      match applyOp s ws with
      | none => IO.println "! disabled"; IO.println "--"; loop h (some s)
      | some s1 =>
        let s2 := afterOp s1
        for l in canon s2 (s2.ev.drop s.ev.length) do IO.println l
        IO.println "--"
        loop h (some s2)

def main : IO Unit := do loop (← IO.getStdin) none
